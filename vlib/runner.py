"""Generic driver of one property check: build, proof obligations, property module, known findings, evidence, exit code."""
import os, sys, json, time, hashlib, random, importlib, traceback
from . import VERIF, build

EVID = os.path.join(VERIF, "evidence")
if os.environ.get("OVLD_REPO"):
    # a run against a scratch copy (seeded-change evaluation) must not overwrite the evidence of /repo
    EVID = os.path.join("/tmp", "verif-scratch-evidence")
REPLAYS = os.path.join(VERIF, "replays")
KF_DIR = os.path.join(VERIF, "findings")

TRUSTED_BASE = [
    "Coq 8.16.1 kernel (coqc); vm_compute used for the *_refuted witnesses, the Examples and the in-Coq cross-check of extraction; no native_compute",
    "axioms: none -- every property theorem prints 'Closed under the global context' (recorded per theorem in coverage.assumptions)",
    "the hand-written Gallina model (coq/Model/*.v) is what is proved about; it is tied to /repo's current source by the correspondence run of this check (same cases through the implementation and through the extracted model) and, for leaf decision functions, by coq/Gen/Leaf.v regenerated from the source by vlib/translator/leaf.py on every run",
    "extraction: Coq's extraction with ExtrOcamlBasic only (bool, option, list, prod, unit, sumbool -> OCaml's own; nat, Z, positive and all model types extracted as inductives); no Extract Constant / Extract Inductive of our own; OCaml 4.13.1 ocamlopt; ocaml/driver.ml (s-expression reader/printer, int<->Z)",
    "modelled, not verified: CPython's issubclass/isinstance/hasattr on the generated classes (read off the implementation and passed to the model as tables), typing.get_origin/get_args, argument binding, dict semantics; user code enters as tables or section variables",
    "the Python harness (case generators, encoders, oracles) -- a disagreement or oracle failure is always confirmed on the real library before it is reported",
]


class Ctx:
    def __init__(self, prop, tier, seed):
        self.prop = prop
        self.tier = tier
        self.seed = seed
        self.rng = random.Random(seed)
        self.t0 = time.time()
        self.violations = []   # list of dict(what=..., case=...)
        self.known = {}        # kf id -> dict(count=..., example=...)
        self.notes = []

    def quick(self):
        return self.tier == "quick"

    def violation(self, what, case, kind="property"):
        self.violations.append({"what": what, "case": case, "kind": kind})

    def known_hit(self, kf_id, example=None):
        d = self.known.setdefault(kf_id, {"count": 0, "example": example})
        d["count"] += 1

    def elapsed(self):
        return time.time() - self.t0


def load_kf(prop):
    import glob
    out = []
    for f in sorted(glob.glob(os.path.join(KF_DIR, "*.json"))):
        e = json.load(open(f))
        if prop in e.get("properties", []):
            out.append(e)
    return out


def write_replay(prop, payload):
    os.makedirs(REPLAYS, exist_ok=True)
    blob = json.dumps(payload, sort_keys=True, default=str)
    h = hashlib.sha1(blob.encode()).hexdigest()[:12]
    path = os.path.join(REPLAYS, f"{prop}-{h}.json")
    with open(path, "w") as f:
        json.dump(payload, f, indent=1, sort_keys=True, default=str)
    return path


def main(argv=None):
    import argparse
    ap = argparse.ArgumentParser()
    ap.add_argument("prop")
    ap.add_argument("--tier", default=os.environ.get("VERIF_TIER", "quick"), choices=["quick", "thorough"])
    ap.add_argument("--replay", default=None)
    ap.add_argument("--seed", type=int, default=int(os.environ.get("VERIF_SEED", "0") or 0))
    a = ap.parse_args(argv)
    prop = a.prop.upper()
    ctx = Ctx(prop, a.tier, a.seed)
    os.makedirs(EVID, exist_ok=True)
    mod = importlib.import_module(f"vlib.props.{prop.lower()}")

    if a.replay:
        payload = json.load(open(a.replay))
        ok = mod.replay(ctx, payload)
        print(("REPRODUCED" if ok else "NOT-REPRODUCED") + f" property={prop} replay={a.replay}")
        return 1 if ok else 0

    # 1. build (regenerates Gen/*.v from /repo, make, extraction, driver)
    b = build.ensure_built()
    obligations = list(mod.THEOREMS)
    discharged = []
    broken = []
    assumptions = {}
    if b["forbidden"]:
        broken.append("forbidden declarations in sources: " + "; ".join(f"{f}:{l}" for f, l, _ in b["forbidden"]))
    model_ok = not [f for f in b["failed"] if f.startswith("Model/") or f.startswith("Gen/") or f.startswith("ocaml") or f.startswith("Extract")]
    pr = build.check_props(f"{prop}.v", obligations) if model_ok else {"compiled": False, "assumptions": {}, "log": "model does not build"}
    allowed_axioms = set(getattr(mod, "ALLOWED_AXIOMS", []))
    for t in obligations:
        st = pr["assumptions"].get(t)
        if st == "closed":
            discharged.append(t); assumptions[t] = "Closed under the global context"
        elif isinstance(st, list) and set(st) <= allowed_axioms:
            discharged.append(t); assumptions[t] = "Axioms: " + ", ".join(st)
        else:
            broken.append(f"theorem {t} of coq/Props/{prop}.v is not checked" + (f" (depends on {st})" if st else ""))
    closure = build.dep_closure(f"Props/{prop}.v")
    for f in b["failed"]:
        if f in closure or f.startswith("ocaml") or f.startswith("Extract") or f.startswith("Gen/"):
            broken.append(f"coq file {f} does not compile on the model regenerated from /repo")

    # 2. the property module: correspondence impl vs model, property oracle on the implementation, known-finding replays
    cov = {}
    try:
        if model_ok:
            cov = mod.run(ctx) or {}
        else:
            cov = mod.run_impl_only(ctx) if hasattr(mod, "run_impl_only") else {}
    except Exception:
        tb = traceback.format_exc()
        ctx.violation("harness error: " + tb[-1500:], {"traceback": tb}, kind="harness")

    # 3. known findings: each open entry's witness is replayed; fixed entries must pass
    kf_lines = []
    for e in load_kf(prop):
        try:
            rep = mod.replay_finding(ctx, e)
        except Exception:
            rep = None
            ctx.notes.append(f"witness of {e['id']} could not be replayed: " + traceback.format_exc()[-400:])
        if e["status"] == "open":
            if rep:
                kf_lines.append(f"KNOWN-FINDING: property={prop} {e['id']} {e['what']}")
            else:
                ctx.notes.append(f"{e['id']} no longer reproduces on its witness")
        else:  # fixed: suppresses nothing
            if rep:
                ctx.violation(f"fixed finding {e['id']} is back: {e['what']}", e.get("witness"))
    open_ids = {e["id"] for e in load_kf(prop) if e["status"] == "open"}
    for k, d in ctx.known.items():
        if k not in open_ids:
            ctx.violation(f"failing input attributed to {k}, which is not an open known finding", d.get("example"))

    # 4. verdict
    out_lines = []
    exit_code = 0
    real = [v for v in ctx.violations]
    if real:
        exit_code = 1
        seen = set()
        # an input on which the property oracle fails on the implementation is a failing input; a disagreement between
        # implementation and model (or an internal inconsistency of the machinery) is a tie that no longer checks: when
        # nothing but such disagreements was found the lines say so (the replay still holds the input and names the comparison)
        failing = [v for v in real if v["kind"] == "property"]
        ordered = failing + [v for v in real if v["kind"] != "property"]
        for v in ordered[:5]:
            path = write_replay(prop, {"property": prop, "what": v["what"], "kind": v["kind"], "case": v["case"], "seed": ctx.seed, "tier": ctx.tier})
            if path in seen:
                continue
            seen.add(path)
            out_lines.append(f"VIOLATION property={prop} replay={path}" + ("" if failing else " no-failing-input-found"))
    if broken:
        exit_code = 1
        if not real:
            path = write_replay(prop, {"property": prop, "what": "proof obligation or model build no longer checks; no failing input found within this tier's budget",
                                       "broken": broken, "log": (pr.get("log") or "")[-3000:] + (b.get("log") or "")[-3000:], "seed": ctx.seed, "tier": ctx.tier})
            out_lines.append(f"VIOLATION property={prop} replay={path} no-failing-input-found")
    for l in kf_lines:
        print(l)
    for l in out_lines:
        print(l)

    coverage = {
        "obligations": len(obligations), "discharged": len(discharged),
        "checker_cmd": f"coqc -Q coq OvldV coq/Props/{prop}.v  (after `make -C coq`; Print Assumptions under every theorem)",
        "trusted_base": TRUSTED_BASE + list(getattr(mod, "TRUSTED_EXTRA", [])),
        "theorems": obligations, "assumptions": assumptions, "broken": broken,
        "build": {"failed": b["failed"], "notes": b.get("notes"), "wall_s": round(b.get("wall_s", 0), 2)},
        "known_findings_reproduced": [l.split(" ", 3)[2] for l in kf_lines],
        "known_finding_hits_in_exploration": {k: d["count"] for k, d in ctx.known.items()},
        "notes": ctx.notes,
    }
    coverage.update(cov)
    for k in ("evaluations", "distinct_nontrivial"):
        coverage.setdefault(k, 0)
    coverage.setdefault("rule", "")
    coverage.setdefault("samples", [])
    ev = {"property_id": prop, "tier": a.tier, "seed": a.seed, "level": "proof", "coverage": coverage,
          "assumptions": list(getattr(mod, "ASSUMPTIONS", [])), "wall_s": round(time.time() - ctx.t0, 2),
          "violations": len(real) + (1 if broken and not real else 0)}
    with open(os.path.join(EVID, f"{prop}.json"), "w") as f:
        json.dump(ev, f, indent=1, default=str)
    print(f"[{prop}] tier={a.tier} seed={a.seed} obligations={len(discharged)}/{len(obligations)} evaluations={coverage['evaluations']} "
          f"violations={len(real)} known={len(kf_lines)} wall={ev['wall_s']}s")
    return exit_code


if __name__ == "__main__":
    sys.exit(main())
