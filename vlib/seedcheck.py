"""Evaluate a seeded breaking change: confirm it (tests still pass, demo fails with / passes without), run the checks
against a scratch copy of /repo with the change applied (OVLD_REPO), and store it under /verif/seeded/<name>/.

usage: python -m vlib.seedcheck <dir with mutation_i.diff demo_i.py note_i.txt> <i> <property> [--checks C01,C02,...] [--name NAME]"""
import os, sys, json, subprocess, shutil, tempfile, re, time
from . import VERIF, PY

REPO = "/repo"


def sh(cmd, env=None, cwd=None, timeout=1800):
    r = subprocess.run(cmd, shell=True, capture_output=True, text=True, env=env, cwd=cwd, timeout=timeout)
    return r.returncode, r.stdout + r.stderr


def main():
    import argparse
    ap = argparse.ArgumentParser()
    ap.add_argument("dir"); ap.add_argument("i"); ap.add_argument("prop")
    ap.add_argument("--checks", default=None); ap.add_argument("--name", default=None)
    a = ap.parse_args()
    diff = os.path.join(a.dir, f"mutation_{a.i}.diff")
    demo = os.path.join(a.dir, f"demo_{a.i}.py")
    note = os.path.join(a.dir, f"note_{a.i}.txt")
    name = a.name or f"{a.prop}-{a.i}"
    scratch = tempfile.mkdtemp(prefix="seed_", dir="/tmp")
    try:
        sh(f"git -C {REPO} archive HEAD | tar -x -C {scratch}")
        rc, out = sh(f"git apply {os.path.abspath(diff)}", cwd=scratch)
        if rc != 0:
            print("patch does not apply:", out[-500:]); return 2
        env = dict(os.environ); env["PYTHONPATH"] = os.path.join(scratch, "src"); env.pop("OVLD_VERIF", None)
        rc, out = sh(f"{PY} -m pytest -q -p no:cacheprovider tests 2>&1 | tail -3", env=env, cwd=scratch)
        m = re.search(r"(\d+) passed", out)
        passed = int(m.group(1)) if m else 0
        envc = dict(os.environ); envc["PYTHONPATH"] = "/repo/src"; envc.pop("OVLD_VERIF", None)
        rc_clean, out_clean = sh(f"{PY} {os.path.abspath(demo)}", env=envc, cwd=a.dir)
        rc_mut, out_mut = sh(f"{PY} {os.path.abspath(demo)}", env=env, cwd=a.dir)
        confirmed = passed == 143 and rc_clean == 0 and rc_mut != 0
        print(f"tests passed={passed} demo clean rc={rc_clean} mutated rc={rc_mut} confirmed={confirmed}")
        checks = a.checks.split(",") if a.checks else [a.prop]
        results = {}
        for c in checks:
            envk = dict(os.environ); envk["OVLD_REPO"] = scratch
            t0 = time.time()
            rc, out = sh(f"./check {c} --tier quick", env=envk, cwd=VERIF)
            viol = [l for l in out.splitlines() if l.startswith("VIOLATION")]
            results[c] = {"exit": rc, "violation_lines": viol[:3], "wall_s": round(time.time() - t0, 1)}
            print(c, "exit", rc, viol[:1])
        dest = os.path.join(VERIF, "seeded", name)
        os.makedirs(dest, exist_ok=True)
        shutil.copy(diff, os.path.join(dest, "patch.diff"))
        shutil.copy(demo, os.path.join(dest, "demo.py"))
        meta = {"property": a.prop, "needs": open(note).read() if os.path.exists(note) else "",
                "confirmed": {"tests_passed": passed, "demo_exit_clean": rc_clean, "demo_exit_with_change": rc_mut, "ok": confirmed},
                "ran": [f"git apply patch.diff in a scratch export of /repo HEAD; pytest tests; demo with PYTHONPATH=<scratch>/src and with /repo/src; OVLD_REPO=<scratch> ./check {c} --tier quick" for c in checks],
                "checks": results, "caught_by": [c for c, r in results.items() if r["exit"] != 0]}
        json.dump(meta, open(os.path.join(dest, "meta.json"), "w"), indent=1)
        return 0
    finally:
        shutil.rmtree(scratch, ignore_errors=True)
        # rebuild Gen/ from the real /repo
        sh("./setup.sh", cwd=VERIF)


if __name__ == "__main__":
    sys.exit(main())
