"""Shared by C09 / C08: the modelled expression grammar on the Python side.

* model encoding (nested int lists, see coq/Model/Run_Rewrite.v)  <->  Python `ast` nodes  ->  source text
* random generation of expressions / straight-line bodies covering every context of the property
* running the real NameConverter on a parsed method and converting its output back into the encoding
"""
import ast, re

# ---------------------------------------------------------------- identifiers
RECURSE, CALL_NEXT, ALIAS, SELFNAME = 1, 2, 3, 4
FIXED = {RECURSE: "recurse", CALL_NEXT: "call_next", ALIAS: "rec", SELFNAME: "fself"}
FIXED_INV = {v: k for k, v in FIXED.items()}
BINOPS = {0: ast.Add, 1: ast.Mult}


def ident(i):
    return FIXED.get(i) or f"v{i}"


def ident_id(s):
    if s in FIXED_INV:
        return FIXED_INV[s]
    m = re.fullmatch(r"v(\d+)", s)
    if not m:
        raise Unmodelled(f"identifier outside the modelled name table: {s!r}")
    return int(m.group(1))


def name_str(n):
    t = n[0]
    if t == 0:
        return ident(n[1])
    if t == 1:
        k = n[2]
        key = str(k[1]) if k[0] == 0 else ident(k[1]) if k[0] == 1 else "None"
        return f"__TMP{n[1]}_{key}"
    if t in (5, 6, 7):
        return {5: "___OVLD", 6: "___MAP", 7: "___CODE"}[t] + str(n[1])
    return {2: "self", 3: "type", 4: "__SUBTLER_TYPE"}[t]


_LEARNED = None
_LEARNING = [False]


def learned():
    """the spelling of the names the real NameConverter invents (the temporaries' prefix, the name under which it expects
    subtler_type), read off its output on two probe functions: the model's names are canonical, the implementation's are
    recognised by the role they play in the rewritten call, so that a respelling is not a difference"""
    global _LEARNED
    if _LEARNED is None:
        _LEARNED = {"tmp": "__TMP", "subtler": "__SUBTLER_TYPE"}
        try:
            for cx in (False, True):
                anal = real_analysis(dict(method=False, pos=[(10, cx)], kwonly=[]))
                st, new = run_name_converter(anal, RECURSE, None, "def m(v10):\n    return recurse(v10)\n")
                calls = [n for n in ast.walk(new) if isinstance(n, ast.Call) and len(n.args) == 1 and isinstance(n.args[0], ast.NamedExpr)
                         and isinstance(n.func, ast.Name)]
                if len(calls) != 1:
                    continue
                m = re.fullmatch(r"(.*?)(\d+)_0", calls[0].args[0].target.id)
                if m and not cx:
                    _LEARNED["tmp"] = m.group(1)
                if cx and calls[0].func.id != "type":
                    _LEARNED["subtler"] = calls[0].func.id
        except Exception:
            pass
    return _LEARNED


def name_enc(s):
    L = _LEARNED or {"tmp": "__TMP", "subtler": "__SUBTLER_TYPE"}
    m = re.fullmatch(re.escape(L["tmp"]) + r"(\d+)_(.*)", s)
    if m:
        key = m.group(2)
        if key.isdigit():
            k = [0, int(key)]
        elif key == "None":
            k = [2]
        else:
            k = [1, ident_id(key)]
        return [1, int(m.group(1)), k]
    if s == "self":
        return [2]
    if s == "type":
        return [3]
    if s == L["subtler"]:
        return [4]
    for pre, t in (("___OVLD", 5), ("___MAP", 6), ("___CODE", 7)):
        if s.startswith(pre) and s[len(pre):].isdigit():
            return [t, int(s[len(pre):])]
    return [0, ident_id(s)]


# ---------------------------------------------------------------- encoding -> ast
def to_ast(e, store=False):
    t = e[0]
    if t == 0:
        c = e[1]
        return ast.Constant(value=c[1] if c[0] == 0 else ident(c[1]) if c[0] == 1 else None)
    if t == 1:
        return ast.Name(id=name_str(e[1]), ctx=ast.Load())
    if t == 2:
        return ast.Attribute(value=to_ast(e[1]), attr=ident(e[2]), ctx=ast.Load())
    if t == 3:
        return ast.BinOp(left=to_ast(e[2]), op=BINOPS[e[1]](), right=to_ast(e[3]))
    if t == 4:
        return ast.BoolOp(op=ast.Or() if e[1] else ast.And(), values=[to_ast(x) for x in e[2]])
    if t == 5:
        return ast.IfExp(test=to_ast(e[1]), body=to_ast(e[2]), orelse=to_ast(e[3]))
    if t == 6:
        args = [ast.Starred(value=to_ast(a), ctx=ast.Load()) if st else to_ast(a) for st, a in e[2]]
        kws = [ast.keyword(arg=ident(k[1]) if k[0] == 1 else None, value=to_ast(v)) for k, v in e[3]]
        return ast.Call(func=to_ast(e[1]), args=args, keywords=kws)
    if t == 7:
        return ast.NamedExpr(target=ast.Name(id=name_str(e[1]), ctx=ast.Store()), value=to_ast(e[2]))
    if t == 8:
        return ast.Lambda(args=ast.arguments(posonlyargs=[], args=[ast.arg(arg=name_str(x)) for x in e[1]], vararg=None,
                                             kwonlyargs=[], kw_defaults=[], kwarg=None, defaults=[]), body=to_ast(e[2]))
    if t == 9:
        return ast.ListComp(elt=to_ast(e[1]), generators=[ast.comprehension(
            target=ast.Name(id=name_str(e[2]), ctx=ast.Store()), iter=to_ast(e[3]), ifs=[to_ast(c) for c in e[4]], is_async=0)])
    if t == 10:
        return ast.JoinedStr(values=[ast.FormattedValue(value=to_ast(x), conversion=-1, format_spec=None) for x in e[1]])
    if t == 11:
        return ast.Call(func=ast.Name(id="eff", ctx=ast.Load()), args=[ast.Constant(value=e[1]), to_ast(e[2])], keywords=[])
    if t == 12:
        return ast.Tuple(elts=[to_ast(x) for x in e[1]], ctx=ast.Load())
    if t == 13:
        return ast.Subscript(value=to_ast(e[1]), slice=to_ast(e[2]), ctx=ast.Load())
    raise ValueError(e)


def stmt_to_ast(s):
    if s[0] == 0:
        return ast.Expr(value=to_ast(s[1]))
    if s[0] == 1:
        return ast.Assign(targets=[ast.Name(id=name_str(s[1]), ctx=ast.Store())], value=to_ast(s[2]))
    return ast.Return(value=to_ast(s[1]))


def expr_src(e):
    return ast.unparse(ast.fix_missing_locations(ast.Expression(body=to_ast(e))))


def body_src(body, indent="    "):
    lines = []
    for s in body:
        node = ast.fix_missing_locations(ast.Module(body=[stmt_to_ast(s)], type_ignores=[]))
        lines.append(indent + ast.unparse(node))
    return "\n".join(lines)


# ---------------------------------------------------------------- ast -> encoding
class Unmodelled(ValueError):
    pass


def from_ast(n):
    if isinstance(n, ast.Constant):
        v = n.value
        if v is None:
            return [0, [2]]
        if isinstance(v, bool):
            raise Unmodelled("bool constant")
        if isinstance(v, int):
            return [0, [0, v]]
        if isinstance(v, str):
            return [0, [1, ident_id(v)]]
        raise Unmodelled(repr(v))
    if isinstance(n, ast.Name):
        return [1, name_enc(n.id)]
    if isinstance(n, ast.Attribute):
        return [2, from_ast(n.value), ident_id(n.attr)]
    if isinstance(n, ast.BinOp):
        for k, c in BINOPS.items():
            if isinstance(n.op, c):
                return [3, k, from_ast(n.left), from_ast(n.right)]
        raise Unmodelled("binop")
    if isinstance(n, ast.BoolOp):
        return [4, int(isinstance(n.op, ast.Or)), [from_ast(x) for x in n.values]]
    if isinstance(n, ast.IfExp):
        return [5, from_ast(n.test), from_ast(n.body), from_ast(n.orelse)]
    if isinstance(n, ast.Call):
        if isinstance(n.func, ast.Name) and n.func.id == "eff" and len(n.args) == 2 and not n.keywords \
                and isinstance(n.args[0], ast.Constant) and isinstance(n.args[0].value, int):
            return [11, n.args[0].value, from_ast(n.args[1])]
        args = [[1, from_ast(a.value)] if isinstance(a, ast.Starred) else [0, from_ast(a)] for a in n.args]
        kws = [[[1, ident_id(k.arg)] if k.arg is not None else [0], from_ast(k.value)] for k in n.keywords]
        return [6, from_ast(n.func), args, kws]
    if isinstance(n, ast.NamedExpr):
        return [7, name_enc(n.target.id), from_ast(n.value)]
    if isinstance(n, ast.Lambda):
        a = n.args
        if a.posonlyargs or a.vararg or a.kwonlyargs or a.kwarg or a.defaults:
            raise Unmodelled("lambda signature")
        return [8, [name_enc(x.arg) for x in a.args], from_ast(n.body)]
    if isinstance(n, ast.ListComp):
        if len(n.generators) != 1 or n.generators[0].is_async or not isinstance(n.generators[0].target, ast.Name):
            raise Unmodelled("comprehension shape")
        g = n.generators[0]
        return [9, from_ast(n.elt), name_enc(g.target.id), from_ast(g.iter), [from_ast(c) for c in g.ifs]]
    if isinstance(n, ast.JoinedStr):
        parts = []
        for v in n.values:
            if not isinstance(v, ast.FormattedValue) or v.conversion != -1 or v.format_spec is not None:
                raise Unmodelled("f-string part")
            parts.append(from_ast(v.value))
        return [10, parts]
    if isinstance(n, ast.Tuple):
        return [12, [from_ast(x) for x in n.elts]]
    if isinstance(n, ast.Subscript):
        return [13, from_ast(n.value), from_ast(n.slice)]
    raise Unmodelled(type(n).__name__)


def stmt_from_ast(n):
    if isinstance(n, ast.Expr):
        return [0, from_ast(n.value)]
    if isinstance(n, ast.Assign) and len(n.targets) == 1 and isinstance(n.targets[0], ast.Name):
        return [1, name_enc(n.targets[0].id), from_ast(n.value)]
    if isinstance(n, ast.Return) and n.value is not None:
        return [2, from_ast(n.value)]
    raise Unmodelled(type(n).__name__)


# ---------------------------------------------------------------- generation
class Gen:
    """Random expressions of the modelled grammar.  Knobs choose how often the awkward placements occur."""

    def __init__(self, rng, *, rs=RECURSE, cs=CALL_NEXT, kwnames=(31, 32), posnames=(), vars_=(10, 11, 12), comp_vars=(20, 21),
                 lam_vars=(25, 26), wal_vars=(15, 16), p_odd=0.06, allow_cs=True, max_depth=4):
        self.r = rng
        self.rs, self.cs = rs, cs
        self.kwnames = list(kwnames)
        self.posnames = list(posnames)
        self.vars = list(vars_)
        self.comp_vars = list(comp_vars)
        self.lam_vars = list(lam_vars)
        self.wal_vars = list(wal_vars)
        self.p_odd = p_odd
        self.allow_cs = allow_cs
        self.max_depth = max_depth
        self.tag = 0
        self.ctx_hist = {}

    def hit(self, k):
        self.ctx_hist[k] = self.ctx_hist.get(k, 0) + 1

    def odd(self):
        return self.r.random() < self.p_odd

    def var(self, scope):
        pool = self.vars + scope
        return [1, [0, self.r.choice(pool)]]

    def leaf(self, scope):
        r = self.r.random()
        if r < 0.45:
            return self.var(scope)
        if r < 0.8:
            return [0, [0, self.r.randrange(0, 4)]]
        if r < 0.9:
            return [0, [1, self.r.choice([40, 41])]]
        return [0, [2]]

    def site(self, d, scope, ctx):
        sym = self.cs if (self.allow_cs and self.cs is not None and self.r.random() < 0.35) else self.rs
        if sym is None:
            sym = self.cs if self.cs is not None else RECURSE
        self.hit("site:" + ctx)
        n = self.r.choice([0, 1, 1, 1, 2, 2, 3])
        args = []
        for _ in range(n):
            st = 1 if self.odd() else 0
            if st:
                self.hit("site-star")
            args.append([st, self.expr(d - 1, scope, "arg")])
        kws = []
        names = self.kwnames[:]
        self.r.shuffle(names)
        for k in names[: self.r.choice([0, 0, 1, 1, 2])]:
            kws.append([[1, k], self.expr(d - 1, scope, "kwarg")])
        if self.posnames and self.odd():
            self.hit("site-poskw")
            kws.append([[1, self.r.choice(self.posnames)], self.expr(d - 1, scope, "kwarg")])
        if self.odd():
            self.hit("site-dstar")
            kws.insert(self.r.randrange(len(kws) + 1), [[0], self.expr(d - 1, scope, "dstar")])
        if kws and self.odd() and kws[0][0][0] == 1:
            kws.append([kws[0][0], self.expr(d - 1, scope, "kwarg")])  # repeated keyword: not valid Python
        return [6, [1, [0, sym]], args, kws]

    def expr(self, d, scope, ctx="top"):
        r = self.r.random()
        if d <= 0:
            if r < 0.25:
                return self.site(0, scope, ctx)
            return self.leaf(scope)
        if r < 0.22:
            return self.site(d, scope, ctx)
        if r < 0.30:
            return self.leaf(scope)
        if r < 0.36:
            self.tag += 1
            return [11, self.tag, self.expr(d - 1, scope, ctx)]
        if r < 0.42:
            return [3, self.r.randrange(2), self.expr(d - 1, scope, "binop"), self.expr(d - 1, scope, "binop")]
        if r < 0.49:
            return [4, self.r.randrange(2), [self.expr(d - 1, scope, "boolop") for _ in range(self.r.choice([2, 2, 3]))]]
        if r < 0.55:
            return [5, self.expr(d - 1, scope, "if-test"), self.expr(d - 1, scope, "if-body"), self.expr(d - 1, scope, "if-else")]
        if r < 0.62:
            # ordinary call: a global function, an attribute, or a lambda called on the spot
            f = self.r.choice([[1, [0, 50]], [1, [0, 51]], [2, self.var(scope), 42]])
            args = [[1 if self.odd() else 0, self.expr(d - 1, scope, "call-arg")] for _ in range(self.r.choice([0, 1, 2]))]
            kws = [[[1, k], self.expr(d - 1, scope, "call-kw")] for k in self.kwnames[: self.r.choice([0, 0, 1])]]
            if self.odd():
                kws.append([[0], self.expr(d - 1, scope, "call-dstar")])
            return [6, f, args, kws]
        if r < 0.68:
            x = self.r.choice(self.wal_vars) if not self.odd() else self.r.choice(self.comp_vars + [self.rs or RECURSE])
            return [7, [0, x], self.expr(d - 1, scope, "walrus")]
        if r < 0.75:
            ps = self.r.sample(self.lam_vars, self.r.choice([0, 1, 1, 2]))
            if self.odd() and ps:
                ps = ps + [ps[0]]
            if self.odd():
                ps = [3] if False else ps
            body = self.expr(d - 1, scope + ps, "lambda")
            lam = [8, [[0, x] for x in ps], body]
            if self.r.random() < 0.6:
                return [6, lam, [[0, self.expr(d - 1, scope, "lam-arg")] for _ in ps], []]
            return lam
        if r < 0.86:
            x = self.r.choice(self.comp_vars)
            sc = scope + [x]
            conds = [self.expr(d - 1, sc, "comp-cond") for _ in range(self.r.choice([0, 0, 1, 2]))]
            it = self.expr(d - 1, scope, "comp-iter") if self.r.random() < 0.45 else self.var(scope)
            return [9, self.expr(d - 1, sc, "comp-elt"), [0, x], it, conds]
        if r < 0.90:
            return [10, [self.expr(d - 1, scope, "fstring") for _ in range(self.r.choice([1, 2]))]]
        if r < 0.94:
            return [12, [self.expr(d - 1, scope, "tuple") for _ in range(self.r.choice([1, 2, 3]))]]
        if r < 0.97:
            return [13, self.expr(d - 1, scope, "sub-value"), self.expr(d - 1, scope, "sub-index")]
        # bare names of the symbols
        self.hit("bare-symbol")
        return [1, [0, self.r.choice([s for s in (self.rs, self.cs) if s is not None] or [RECURSE])]]

    def body(self, n_stmts=None):
        n = n_stmts or self.r.choice([1, 1, 2, 3])
        out = []
        for i in range(n):
            e = self.expr(self.r.choice([1, 2, 2, 3, self.max_depth]), [], "stmt")
            if i == n - 1:
                out.append([2, e])
            elif self.r.random() < 0.5:
                out.append([1, [0, self.r.choice(self.wal_vars + self.vars)], e])
            else:
                out.append([0, e])
        return out


def count_nodes(e, acc=None):
    """histogram of node kinds (by tag) of an encoded expression"""
    acc = acc if acc is not None else {}
    acc[e[0]] = acc.get(e[0], 0) + 1
    t = e[0]
    subs = []
    if t == 2:
        subs = [e[1]]
    elif t == 3:
        subs = [e[2], e[3]]
    elif t in (4, 10, 12):
        subs = e[-1]
    elif t == 5:
        subs = e[1:]
    elif t == 6:
        subs = [e[1]] + [a for _, a in e[2]] + [v for _, v in e[3]]
    elif t in (7, 8, 11):
        subs = [e[2]]
    elif t == 9:
        subs = [e[1], e[3]] + e[4]
    elif t == 13:
        subs = [e[1], e[2]]
    for s in subs:
        count_nodes(s, acc)
    return acc


def has_site(e, syms):
    if e[0] == 6 and e[1][0] == 1 and e[1][1][0] == 0 and e[1][1][1] in syms:
        return True
    t = e[0]
    subs = []
    if t == 2:
        subs = [e[1]]
    elif t == 3:
        subs = [e[2], e[3]]
    elif t in (4, 10, 12):
        subs = e[-1]
    elif t == 5:
        subs = e[1:]
    elif t == 6:
        subs = [e[1]] + [a for _, a in e[2]] + [v for _, v in e[3]]
    elif t in (7, 8, 11):
        subs = [e[2]]
    elif t == 9:
        subs = [e[1], e[3]] + e[4]
    elif t == 13:
        subs = [e[1], e[2]]
    return any(has_site(s, syms) for s in subs)


# ---------------------------------------------------------------- the real rewriter
def real_analysis(shape):
    """Build a real @ovld function (or OvldBase method) with the given parameter shape and return its
    ArgumentAnalyzer.  shape = dict(method=bool, pos=[(name id or None for positional-only, complex?)...],
    kwonly=[(name id, complex?)...])"""
    from vlib import use_repo
    use_repo()
    import ovld
    params = []
    posonly = [p for p in shape["pos"] if p[0] is None]
    named = [p for p in shape["pos"] if p[0] is not None]
    k = 0
    for (nm, cx) in posonly:
        params.append(f"p{k}: {'type[int]' if cx else 'int'}")
        k += 1
    if posonly:
        params.append("/")
    for (nm, cx) in named:
        params.append(f"{ident(nm)}: {'type[int]' if cx else 'int'}")
    if shape["kwonly"]:
        params.append("*")
        for kwp in shape["kwonly"]:
            nm, cx = kwp[0], kwp[1]
            params.append(f"{ident(nm)}: {'type[int]' if cx else 'int'}" + ("" if len(kwp) > 2 and kwp[2] else " = 0"))
    if shape["method"]:
        src = "class K(OvldBase):\n    @ovld\n    def m(self, " + ", ".join(params) + "):\n        return 0\n"
        glb = {"OvldBase": ovld.OvldBase, "ovld": ovld.ovld}
        exec(src, glb)
        ov = glb["K"].m.__ovld__
    else:
        src = "@ovld\ndef m(" + ", ".join(params) + "):\n    return 0\n"
        glb = {"ovld": ovld.ovld}
        exec(src, glb)
        ov = glb["m"].__ovld__
    ov.ensure_compiled()
    return ov.argument_analysis


def params_from_analysis(anal, rs, cs, aliases=(), nid=0, code=0):
    """model parameters read off the real analysis object"""
    cx = []
    for k in sorted(anal.complex_transforms, key=str):
        cx.append([0, k] if isinstance(k, int) else [1, ident_id(k)])
    posnames = []
    for pos in sorted(anal.position_to_names):
        names = [n for n in anal.position_to_names[pos]]
        if len(names) == 1 and isinstance(names[0], str):
            posnames.append([1, ident_id(names[0])])
        else:
            posnames.append([0])
    on = lambda x: [1, x] if x is not None else [0]
    al = [[a, int(a == SELFNAME)] if isinstance(a, int) else list(a) for a in aliases]
    return [int(bool(anal.is_method)), cx, posnames, on(rs), on(cs), al, nid, code]


def run_name_converter(anal, rs, cs, fn_src, nid=0, code=0):
    """Run the real NameConverter exactly as recode does, on the parsed source of one function.
    Returns ("usage", None) or ("ok", new_tree)."""
    from ovld.recode import NameConverter
    from ovld.utils import UsageError
    if _LEARNED is None and not _LEARNING[0]:
        _LEARNING[0] = True
        learned()
    tree = ast.parse(fn_src)
    nc = NameConverter(anal=anal, recurse_sym=ident(rs) if rs is not None else [], call_next_sym=ident(cs) if cs is not None else [],
                       ovld_mangled=f"___OVLD{nid}", map_mangled=f"___MAP{nid}", code_mangled=f"___CODE{code}")
    try:
        new = nc.visit(tree)
    except UsageError:
        return "usage", None
    return "ok", new


def compiles(tree_or_src):
    try:
        if isinstance(tree_or_src, str):
            compile(tree_or_src, "<c09>", "exec")
        else:
            ast.fix_missing_locations(tree_or_src)
            compile(tree_or_src, "<c09>", "exec")
        return True
    except SyntaxError:
        return False


class EvalGen(Gen):
    """Bodies whose every operation is mirrored exactly by the model's standard oracles (Run_Rewrite.v): values are
    ints, None, lists, tuples, callable user objects and lambdas; no strings / f-strings (iterating a str yields
    strs), dicts only as ** operands; := targets inside a lambda are numbered by lambda depth (Python decides
    statically which scope a name belongs to, the model dynamically: with distinct names per depth both agree)."""

    def __init__(self, rng, *, syms=(RECURSE,), cs=CALL_NEXT, method=False, p_odd=0.04):
        super().__init__(rng, rs=syms[0], cs=cs, kwnames=(31, 32), posnames=(10, 11), vars_=(11, 12, 13),
                         comp_vars=(20, 21), lam_vars=(25, 26), wal_vars=(15, 16), p_odd=p_odd)
        self.syms = list(syms)
        self.method = method

    def leaf(self, scope):
        r = self.r.random()
        if r < 0.5:
            return self.var(scope)
        if r < 0.9:
            return [0, [0, self.r.randrange(0, 4)]]
        return [0, [2]]

    def arg_expr(self, d, scope, ctx, want=None):
        """an argument expression, biased towards the types the leaves are registered for"""
        r = self.r.random()
        if want == "int":
            if r < 0.45:
                return [0, [0, self.r.randrange(0, 4)]]
            if r < 0.65:
                return [1, [0, 12]]
            if r < 0.75:
                self.tag += 1
                return [11, self.tag, [0, [0, self.r.randrange(0, 4)]]]
            if r < 0.85:
                return [3, self.r.randrange(2), [1, [0, 12]], [0, [0, self.r.randrange(0, 3)]]]
            return self.expr(d - 1, scope, ctx)
        if want == "list" or (want is None and r < 0.2):
            return self.r.choice([[1, [0, 13]], [9, self.leaf(scope + [20]), [0, 20], [1, [0, 13]], []]])
        if want == "tuple" or (want is None and r < 0.3):
            return [12, [self.expr(d - 1, scope, "tuple")]]
        if r < 0.7:
            return self.expr(d - 1, scope, ctx)
        return self.leaf(scope)

    def site(self, d, scope, ctx, depth=0):
        pool = [s for s in self.syms] + ([self.cs] if (self.cs is not None and self.allow_cs) else [])
        sym = self.r.choice(pool)
        self.hit("site:" + ctx)
        args, kws = [], []
        shape = self.r.random()
        if self.odd():
            self.hit("site-star")
            args = [[1, self.r.choice([[1, [0, 13]], [12, [self.leaf(scope), self.leaf(scope)]]])]]
        else:
            n = 2 if shape < 0.8 else self.r.choice([0, 1, 3])
            wants = self.r.choice([(None, None), ("int", "int"), ("int", "int"), ("int", "list"), ("list", "int"), ("tuple", "int"), ("int", "tuple"), ("list", "list"), ("tuple", "tuple")])
            for i in range(n):
                args.append([0, self.arg_expr(d, scope, "arg", wants[i] if i < 2 else None)])
        r = self.r.random()
        if r < 0.25:
            kws.append([[1, 31], self.arg_expr(d, scope, "kwarg", self.r.choice(["int", "int", "tuple", None]))])
        elif r < 0.33:
            kws.append([[1, 32], self.arg_expr(d, scope, "kwarg", "list")])
            if self.r.random() < 0.5:
                kws.append([[1, 31], self.arg_expr(d, scope, "kwarg")])
        if self.odd():
            self.hit("site-poskw")
            if args and not args[-1][0]:
                last = args.pop()
                kws.append([[1, 10 + len(args)], last[1]])
        if self.odd():
            self.hit("site-dstar")
            used = {k[1] for k, _ in kws if k[0] == 1}
            dv = 60 if 31 not in used else (61 if 32 not in used else None)
            if dv is not None:
                kws.append([[0], [1, [0, dv]]])
        return [6, [1, [0, sym]], args, kws]

    def expr(self, d, scope, ctx="top", depth=0):
        r = self.r.random()
        if d <= 0:
            if r < 0.3:
                return self.site(0, scope, ctx)
            return self.leaf(scope)
        if r < 0.24:
            return self.site(d, scope, ctx)
        if r < 0.32:
            return self.leaf(scope)
        if r < 0.40:
            self.tag += 1
            return [11, self.tag, self.expr(d - 1, scope, ctx)]
        if r < 0.46:
            return [3, self.r.randrange(2), self.expr(d - 1, scope, "binop"), self.expr(d - 1, scope, "binop")]
        if r < 0.53:
            return [4, self.r.randrange(2), [self.expr(d - 1, scope, "boolop") for _ in range(self.r.choice([2, 2, 3]))]]
        if r < 0.59:
            return [5, self.expr(d - 1, scope, "if-test"), self.expr(d - 1, scope, "if-body"), self.expr(d - 1, scope, "if-else")]
        if r < 0.65:
            f = self.r.choice([[1, [0, 50]], [1, [0, 51]], [2, [1, [0, 50]], 42]])
            args = [[1 if self.odd() else 0, self.expr(d - 1, scope, "call-arg")] for _ in range(self.r.choice([0, 1, 2]))]
            kws = [[[1, 31], self.expr(d - 1, scope, "call-kw")]] if self.r.random() < 0.2 else []
            return [6, f, args, kws]
        if r < 0.71:
            lamdepth = sum(1 for x in scope if x in (25, 26))
            x = 15 + self.r.randrange(2) if lamdepth == 0 else 170 + 10 * self.r.randrange(2) + min(lamdepth, 9)
            return [7, [0, x], self.expr(d - 1, scope + [x], "walrus")]
        if r < 0.78:
            ps = self.r.sample(self.lam_vars, self.r.choice([0, 1, 1, 2]))
            body = self.expr(d - 1, [s for s in scope if s < 100] + ps, "lambda")
            lam = [8, [[0, x] for x in ps], body]
            if self.r.random() < 0.7:
                n = len(ps) if not self.odd() else len(ps) + 1
                return [6, lam, [[0, self.expr(d - 1, scope, "lam-arg")] for _ in range(n)], []]
            return lam
        if r < 0.89:
            x = self.r.choice(self.comp_vars)
            sc = scope + [x]
            conds = [self.expr(d - 1, sc, "comp-cond") for _ in range(self.r.choice([0, 0, 1, 2]))]
            it = self.expr(d - 1, scope, "comp-iter") if self.r.random() < 0.4 else self.r.choice([[1, [0, 13]], [12, [self.leaf(scope), self.leaf(scope)]]])
            return [9, self.expr(d - 1, sc, "comp-elt"), [0, x], it, conds]
        if r < 0.94:
            return [12, [self.expr(d - 1, scope, "tuple") for _ in range(self.r.choice([1, 2, 3]))]]
        if r < 0.98:
            return [13, self.expr(d - 1, scope, "sub-value"), [0, [0, self.r.randrange(0, 3)]]]
        self.hit("bare-symbol")
        return [1, [0, self.r.choice(self.syms + ([self.cs] if self.cs is not None else []))]]

    def body(self, n_stmts=None):
        n = n_stmts or self.r.choice([1, 1, 2, 3])
        out = []
        for i in range(n):
            e = self.expr(self.r.choice([1, 2, 2, 3, 3]), [], "stmt")
            if i == n - 1:
                out.append([2, e])
            elif self.r.random() < 0.5:
                out.append([1, [0, self.r.choice([15, 16])], e])
            else:
                out.append([0, e])
        return out


def canon_tmps(x, table=None):
    """rename the temporaries' numbers by order of first occurrence: two rewritings that differ only by an injective
    renumbering of __TMP<n> behave the same, so the comparison of rewritten trees is made modulo that"""
    table = table if table is not None else {}
    if isinstance(x, list):
        if len(x) == 3 and x[0] == 1 and isinstance(x[1], int) and isinstance(x[2], list) and x[2] and x[2][0] in (0, 1, 2) \
                and (len(x[2]) == 1 or isinstance(x[2][1], int)) and len(x[2]) <= 2:
            n = table.setdefault(x[1], len(table))
            return [1, n, x[2]]
        return [canon_tmps(y, table) for y in x]
    return x
