"""C16 — variants and mixins compose without ever disturbing their parents."""
import json, collections, time
from .. import model
from . import gsim as G

CLAIM = dict(
    text="Coq theorems about the executable model of the derivation graph of Ovld objects (Model/Graph.v: own tables with the same-signature push-down, mixins, children, linkback, recursive lock, _lock_parents, compile snapshot, _update propagation incl. after add_mixins), as invariants of every finite operation sequence from the empty graph, all at full strength: the effective table is the parents' effective tables overlaid by the own one (own wins, later mixin over earlier), and every node's observable always is that overlay (no node is ever out of date); an operation on N leaves the observable of every node that does not derive from N unchanged, and of every used node not reached from N through linkback derivations; first use changes no observable; a locked node refuses every modification; once a node is in use, for every non-linkback node v it derives from through linkback derivations only (itself included) every parent of v and everything that parent derives from is locked, so a still modifiable ancestor of a used node always reaches it by propagation; after register / unregister / add_mixins every linkback descendant is up to date. The model follows the repaired code (KF-18, KF-40, KF-43 fixed) and is tied to /repo on every run: random histories over <= 6 functions replayed from scratch after every step, every node probed on every signature (whole call_next chain, 'No method', 'locked'), compared with the extracted model and with the property oracles evaluated on the implementation alone.",
    note="Trusted: Coq kernel, extraction, OCaml driver, the hand-written model (validated by the correspondence), the harness. Abstraction: a node's behaviour is its effective table (signature key -> method); that dispatch depends on the table only is the Resolve component's business. No partial theorem is left for C16: the former finding classes KF-18, KF-40, KF-43 are repaired and kept as must-pass replays.",
    technique="Coq proof (invariants over fold_left of the step function, fuelled traversals) + differential correspondence with scratch replays",
    design="6 C16")

THEOREMS = ["C16_never_stuck", "C16_overlay", "C16_overlay_used", "C16_always_fresh",
            "C16_isolation", "C16_isolation_used", "C16_use_invisible", "C16_refused_unchanged", "C16_locked_refuses",
            "C16_lock", "C16_modifiable_reaches", "C16_lock_plain_paths", "C16_lock_closed", "C16_linkback"]
ASSUMPTIONS = [
    "a node's behaviour is represented by its effective table (signature key incl. tiebreak -> method label); resolution itself is not modelled here (the probes use single-inheritance chains of classes, where the chain of call_next is determined by the table)",
    "histories never close a cycle of mixins (add_mixins of a descendant): the real code then recurses forever in defns (RecursionError); the model refuses such a step as Invalid, and the harness checks that agreement on a separate stream",
    "signature keys fold types, priority and arity into one number; all generated methods have priority 0 and one positional parameter",
]

OPN = {0: "create", 1: "copy", 2: "variant", 3: "add_mixins", 4: "register", 5: "unregister", 6: "use"}


# ---------------- generation ----------------
def gen_history(rng, nsteps=None, max_nodes=6):
    """random history; every choice from rng.  The real library is run alongside only to know which operations are
    refused (so that the bookkeeping used to avoid cycles is right); the case is the list of operations."""
    nsteps = nsteps or rng.randint(6, 16)
    p_lb = rng.choice([0.0, 0.3, 0.5, 1.0])
    p_use = rng.choice([0.05, 0.15, 0.3, 0.5])
    use_on_create = rng.random() < 0.2
    ops, objs, spec = [], [], G.Spec()
    serial = [0]
    labels_of = collections.defaultdict(list)

    def new_label(sig=None):
        serial[0] += 1
        return 10 * serial[0] + (rng.randrange(G.NSIG) if sig is None else sig)

    def emit(op):
        out = G.apply_op(objs, op)
        spec.apply(op, out if isinstance(out, int) else 9)
        ops.append(op)
        return out

    while len(ops) < nsteps:
        n = spec.n()
        r = rng.random()
        lb = int(rng.random() < p_lb)
        if n == 0 or (n < max_nodes and r < 0.22):
            kind = rng.choice([0, 1, 1, 2]) if n else 0
            extra = rng.sample(range(n), rng.choice([0, 0, 1, 2]) if n >= 2 else 0) if n else []
            if kind == 0:
                ms = rng.sample(range(n), min(n, rng.choice([0, 1, 1, 2])))
                emit([0, lb] + ms)
            elif kind == 1:
                emit([1, rng.randrange(n), lb] + extra)
            else:
                lab = new_label()
                labels_of[n].append(lab)
                emit([2, rng.randrange(n), lb, G.label_sig(lab), lab] + extra)
            if use_on_create and len(ops) < nsteps:
                emit([6, spec.n() - 1])
        elif r < 0.30 and n >= 2:
            tgt = rng.randrange(n)
            ms = rng.sample(range(n), rng.choice([1, 1, 2]))
            if spec.would_cycle(tgt, ms):
                continue
            emit([3, tgt] + ms)
        elif r < 0.30 + 0.38:
            tgt = rng.randrange(n)
            eff = spec.entries(tgt)
            q = rng.random()
            if eff and q < 0.4:          # same signature as an existing (own or inherited) method
                lab = new_label(rng.choice(eff)[0])
            elif labels_of[tgt] and q < 0.5:   # the same function again
                lab = rng.choice(labels_of[tgt])
            else:
                lab = new_label()
            labels_of[tgt].append(lab)
            emit([4, tgt, G.label_sig(lab), lab])
        elif r < 0.30 + 0.38 + 0.12:
            tgt = rng.randrange(n)
            own = list(spec.own[tgt].values())
            q = rng.random()
            if own and q < 0.7:
                lab = rng.choice(own)
            elif spec.entries(tgt) and q < 0.9:
                lab = rng.choice(spec.entries(tgt))[2]
            else:
                lab = new_label()
            emit([5, tgt, lab])
        elif rng.random() < p_use * 3:
            emit([6, rng.randrange(n)])
    return ops


def op_target(op, n_before):
    return n_before if op[0] in (0, 1, 2) else op[1]


# ---------------- one history: correspondence + oracles ----------------
def check_history(ctx, ops, mres, stats=None, report=True):
    """-> list of (kind, what, step) failures (also reported to ctx when report=True).  mres: the model's answer."""
    fails = []

    def bad(what, k, kind="property"):
        fails.append((kind, what, k))
        if report:
            ctx.violation(what, {"ops": ops, "step": k}, kind=kind)

    def known(kf, k):
        fails.append(("known", kf, k))
        if report:
            ctx.known_hit(kf, {"ops": ops, "step": k})

    spec = G.Spec()
    prev_probes, prev_locks = [], []
    if len(mres) != len(ops):
        bad("model returned a different number of steps", 0, "correspondence")
        return fails
    for k, op in enumerate(ops):
        out, locks, probes = G.observe(ops, k)
        m_out, m_nodes = mres[k]
        outc = out if isinstance(out, int) else 9
        t = op[0]
        if stats is not None:
            stats["steps"] += 1
            stats["op:" + OPN[t]] += 1
            stats["outcome:" + ("done" if outc == 0 else "locked" if outc == 1 else "other")] += 1
        # ---- (a) correspondence with the extracted model
        if outc != m_out:
            bad(f"step {k} {OPN[t]}: implementation outcome {out} != model {m_out}", k, "correspondence")
            return fails
        if len(locks) != len(m_nodes):
            bad(f"step {k}: {len(locks)} functions exist, model has {len(m_nodes)}", k, "correspondence")
            return fails
        for n in range(len(locks)):
            if locks[n] != m_nodes[n][1]:
                bad(f"step {k}: node {n} locked={locks[n]} but model says {m_nodes[n][1]}", k, "correspondence")
            mt = m_nodes[n][3]
            if mt == 9:
                bad(f"step {k}: model has no table for node {n}", k, "correspondence")
                continue
            exp = G.ref_probe([tuple(e) for e in mt])
            if stats is not None:
                stats["probe_vectors"] += 1
            if probes[n] != exp:
                bad(f"step {k}: node {n} answers {probes[n]} but a fresh function built from the model's table answers {exp}", k, "correspondence")
        # ---- (b) property oracles on the implementation alone (bookkeeping from the operations only)
        n_before = spec.n()
        N = op_target(op, n_before)
        exists = N < n_before
        desc = (spec.descendants(N) | {N}) if exists else set()
        lbdesc = (spec.lb_descendants(N) | {N}) if exists else set()
        used_before = list(spec.used)
        performed = outc == 0
        if t in (3, 4, 5) and exists:
            if prev_locks[N] == 1 and outc != 1:
                bad(f"step {k}: node {N} is locked but {OPN[t]} was not refused", k)
            if prev_locks[N] == 0 and outc == 1:
                bad(f"step {k}: node {N} is not locked but {OPN[t]} was refused", k)
        spec.apply(op, outc)
        # isolation
        for m in range(n_before):
            must_keep = (not performed) or t == 6 or (m not in desc) or (used_before[m] and m not in lbdesc)
            if must_keep and probes[m] != prev_probes[m]:
                bad(f"step {k} {OPN[t]} on {N} changed the behaviour of node {m} ({'not derived from it' if m not in desc else 'used, not linked back'})", k)
            if not performed and locks[m] != prev_locks[m]:
                bad(f"step {k}: refused/invalid operation changed the lock of node {m}", k)
        # lock: once c is in use, every non-linkback node v that c derives from through linkback derivations only (c
        # included) has all its parents, and everything they derive from, locked
        for c in range(spec.n()):
            if not spec.used[c]:
                continue
            for v in [c] + [w for w in range(spec.n()) if c in spec.lb_descendants(w)]:
                if spec.lb[v]:
                    continue
                for m in spec.mixins[v]:
                    for a in {m} | spec.ancestors(m):
                        if locks[a] != 1:
                            bad(f"step {k}: node {a} is (an ancestor of) a parent of the non-linkback node {v} from which used node {c} derives by linkback, and is not locked", k)
                        elif stats is not None:
                            stats["lock_checks"] += 1
        # linkback: after a change of N every linkback descendant shows it
        refs = [G.ref_probe(spec.entries(n)) for n in range(spec.n())]
        if performed and (t in (4, 5) or (t == 3 and any(m != N for m in op[2:]))):
            for c in lbdesc:
                if stats is not None:
                    stats["linkback_checks"] += 1
                if probes[c] != refs[c]:
                    bad(f"step {k}: {OPN[t]} on {N} is not visible in its linkback descendant {c}", k)
        # overlay: every node answers like a fresh function built from the overlay of the method sets
        for n in range(spec.n()):
            if probes[n] == refs[n]:
                continue
            if stats is not None:
                stats["stale_observations"] += 1
            bad(f"step {k}: {'used' if spec.used[n] else 'unused'} node {n} answers {probes[n]}, the overlay of its method sets gives {refs[n]}", k)
        prev_probes, prev_locks = probes, locks
    return fails


def nontrivial(ops):
    kinds = [o[0] for o in ops]
    derived = any((o[0] in (1, 2)) or (o[0] == 0 and len(o) > 2) or o[0] == 3 for o in ops)
    return derived and (4 in kinds or 5 in kinds or 2 in kinds) and 6 in kinds


def check_cycle_guard(ctx, rng, stats):
    """add_mixins of a descendant: the model must answer Invalid (or Locked), the implementation recurses forever"""
    ops = gen_history(rng, nsteps=rng.randint(4, 9), max_nodes=4)
    spec = G.Spec()
    objs = []
    for op in ops:
        spec.apply(op, (lambda o: o if isinstance(o, int) else 9)(G.apply_op(objs, op)))
    cands = [(a, c) for c in range(spec.n()) for a in spec.ancestors(c)]
    if not cands:
        return
    a, c = rng.choice(cands)
    op = [3, a, c]
    mres = model.run_cases([[50, ops + [op]]])[0]
    m_out = mres[-1][0]
    out = G.apply_op(objs, op)
    stats["cycle_guard_cases"] += 1
    if out == 1:
        if m_out != 1:
            ctx.violation(f"cyclic add_mixins refused as locked by the implementation, model says {m_out}", {"ops": ops + [op], "step": len(ops)}, kind="correspondence")
        return
    pr = G.probe(objs[a].copy())   # a fresh derivation computes defns (a used node is not rebuilt by add_mixins)
    if m_out != 2 or pr[0] != ("REC",):
        ctx.violation(f"cyclic add_mixins: model outcome {m_out} (expected Invalid), implementation probe {pr[0]} (expected RecursionError)", {"ops": ops + [op], "step": len(ops)}, kind="correspondence")


def small_scope(limit_len, max_nodes=3):
    """all histories of a small alphabet: first a plain create, then up to limit_len further operations"""
    out = []

    def rec(ops, n, serial, last, edges):
        if len(ops) > 1:
            out.append(list(ops))
        if len(ops) >= limit_len + 1:
            return
        if n < max_nodes:
            for p in range(n):
                for lb in (0, 1):
                    rec(ops + [[1, p, lb]], n + 1, serial, last, edges | {(n, p)})
        for x in range(n):
            lab = 10 * (serial + 1)
            rec(ops + [[4, x, 0, lab]], n, serial + 1, {**last, x: lab}, edges)
            if x in last:
                rec(ops + [[5, x, last[x]]], n, serial, {k: v for k, v in last.items() if k != x}, edges)
            rec(ops + [[6, x]], n, serial, last, edges)

    rec([[0, 0]], 1, 0, {}, frozenset())
    return out


def run(ctx):
    stats = collections.Counter()
    samples, seen, nontriv = [], set(), set()
    budget = 38 if ctx.quick() else 420
    target = 300 if ctx.quick() else 10000
    batch = 25
    n_hist = 0
    all_cases = []
    while n_hist < target and ctx.elapsed() < budget and len(ctx.violations) < 10:
        hs = [gen_history(ctx.rng) for _ in range(batch)]
        mres = model.run_cases([[50, h] for h in hs])
        for h, mr in zip(hs, mres):
            check_history(ctx, h, mr, stats)
            n_hist += 1
            key = json.dumps(h)
            if key not in seen:
                seen.add(key)
                if nontrivial(h):
                    nontriv.add(key)
            stats["histories_with_linkback"] += int(any(o[0] in (0, 1, 2) and o[{0: 1, 1: 2, 2: 2}[o[0]]] for o in h))
            stats["histories_used_before_modification"] += int(any(o[0] == 6 for o in h[:len(h) // 2]))
            if len(samples) < 3:
                samples.append({"ops": h, "model_last_step": mr[-1] if mr else None})
            all_cases.append(h)
    for _ in range(10 if ctx.quick() else 150):
        check_cycle_guard(ctx, ctx.rng, stats)
    exhaustive = None
    cross = 0
    if not ctx.quick():
        small = small_scope(5)
        mres = model.run_cases([[50, h] for h in small], chunk=500)
        done = 0
        for h, mr in zip(small, mres):
            if ctx.elapsed() > 780 or len(ctx.violations) >= 10:
                break
            check_history(ctx, h, mr, stats)
            done += 1
        exhaustive = {"alphabet": "create; copy(p, linkback 0/1); register(n, new method of signature 0); unregister(n, last); use(n); <= 3 nodes",
                      "max_len": 6, "histories": len(small), "checked": done, "complete": done == len(small)}
        sub = [[50, h] for h in all_cases[:40]]
        a = model.run_cases(sub)
        b = model.run_in_coq(sub)
        cross = len(sub)
        if a != b:
            ctx.violation("extracted model and vm_compute disagree", {"cases": sub[:3]}, kind="extraction")
    cov = {"evaluations": n_hist + (exhaustive["checked"] if exhaustive else 0) + stats["cycle_guard_cases"],
           "distinct_nontrivial": len(nontriv),
           "rule": "random histories of 6-16 operations (create/copy/variant/add_mixins/register incl. same signature and same function again/unregister/first use) over <= 6 functions, linkback probability and use density drawn per history; distinct by operation list; non-trivial = has a derivation, a method change and a first use",
           "samples": samples, "histories": n_hist, "steps": stats["steps"],
           "traces_validated_against_impl": stats["steps"], "probe_vectors_compared": stats["probe_vectors"],
           "operation_histogram": {k[3:]: v for k, v in stats.items() if k.startswith("op:")},
           "outcome_histogram": {k[8:]: v for k, v in stats.items() if k.startswith("outcome:")},
           "histories_with_linkback": stats["histories_with_linkback"],
           "histories_with_use_in_first_half": stats["histories_used_before_modification"],
           "out_of_date_observations": stats["stale_observations"],
           "lock_checks": stats["lock_checks"], "linkback_checks": stats["linkback_checks"],
           "cycle_guard_cases": stats["cycle_guard_cases"], "vm_compute_crosscheck_cases": cross}
    if exhaustive:
        cov["small_scope"] = exhaustive
    return cov


def replay(ctx, payload):
    case = payload["case"]
    ops = case["ops"]
    mres = model.run_cases([[50, ops]])[0]
    fails = check_history(ctx, ops, mres, report=False)
    for f in fails:
        print(json.dumps(f))
    return any(f[0] != "known" for f in fails)


def replay_finding(ctx, e):
    wit = e["witness"]
    ops = wit["ops"]
    k = len(ops) - 1
    out, locks, probes = G.observe(ops, k)
    exp = wit["expect"]
    ok = True
    if "outcome" in exp:
        ok = ok and out == exp["outcome"]
    if "locks" in exp:
        ok = ok and locks == exp["locks"]
    if "probe" in exp:
        node, vec = exp["probe"]
        ok = ok and [list(c) for c in probes[node]] == vec
    if "overlay" in exp:
        node, vec = exp["overlay"]
        spec = G.Spec()
        objs = []
        for op in ops:
            o = G.apply_op(objs, op)
            spec.apply(op, o if isinstance(o, int) else 9)
        ok = ok and [list(c) for c in G.ref_probe(spec.entries(node))] == vec
    return ok
