"""The public multi-type table (ovld.MultiTypeMap) driven directly: register / getitem incl. continuation keys."""
from . import use_repo
use_repo()
from ovld.typemap import MultiTypeMap  # noqa: E402
from ovld.core import Signature  # noqa: E402
from ovld import mro as omro  # noqa: E402
from .world import Decoder


class Table:
    def __init__(self, world, hook=True):
        self.w = world
        self.dec = Decoder(world)
        self.tm = MultiTypeMap(name="tm")
        self.handlers = {}   # mid -> function
        self.mids = {}       # id(function) -> mid
        self.hook = hook
        self.types = {}

    def ty(self, enc):
        import json
        k = json.dumps(enc)
        if k not in self.types:
            self.types[k] = self.dec.ty(enc)
        return self.types[k]

    def register(self, d, tie=0):
        mid = d["id"]
        g = {}
        exec(f"def h{mid}(*a, **k): return {mid}", g)
        fn = g[f"h{mid}"]
        self.handlers[mid] = fn
        self.mids[id(fn)] = mid
        types = tuple([self.ty(t) for t in d["pos"]] + [(f"k{k}", self.ty(t)) for (k, t, _) in d.get("kw", [])])
        sig = Signature(types=types, return_type=None, req_pos=d["npos_req"], max_pos=len(d["pos"]),
                        req_names=frozenset(f"k{k}" for (k, _, r) in d.get("kw", []) if r), vararg=False,
                        priority=d.get("prio", 0), tiebreak=tie)
        self.tm.register(sig, fn)

    def _install(self):
        if not self.hook:
            omro._verif_reorder = None
            return
        tm = self.tm

        def reorder(site, xs):
            if site == "candidates":
                order = {id(h): i for i, h in enumerate(tm.priorities)}
                return sorted(xs, key=lambda c: order.get(id(c), 10 ** 6))
            glob = []
            for h in tm.type_tuples:
                for t in tm.type_tuples[h]:
                    t = t[1] if isinstance(t, tuple) else t
                    if not any(t == u for u in glob):
                        glob.append(t)

            def rank(t):
                for i, u in enumerate(glob):
                    if u == t:
                        return i
                return 10 ** 6
            return sorted(xs, key=rank)
        omro._verif_reorder = reorder

    def get(self, caller, pos_cls, kw_cls):
        """caller: mid or None; returns ["run", mid] | ["nomethod"] | ["ambig"] | ["exc", name]"""
        key = tuple([self.w.classes[c] for c in pos_cls] + [(f"k{k}", self.w.classes[c]) for k, c in kw_cls.items()])
        if caller is not None:
            key = (self.handlers[caller].__code__,) + key
        self._install()
        try:
            h = self.tm[key]
            return ["run", self.mids.get(id(h))]
        except KeyError as e:
            if len(e.args) == 2 and not e.args[1]:
                return ["nomethod"]
            if len(e.args) == 2:
                return ["ambig"]
            return ["exc", "KeyError"]
        except Exception as e:  # noqa
            return ["exc", type(e).__name__]
        finally:
            omro._verif_reorder = None
