(* EntrySpec.v — property C03 as an executable specification, written from the property text and docs/usage.md:

     "The selected method receives exactly the argument objects the caller supplied, in the same positions and
      under the same keyword names (plus the instance as self for methods), and every parameter the caller omitted
      takes that method's own default [...].  A call shape that an applicable method accepts under the documented
      positional/keyword rules is not rejected."

   A call shape is (k, K): k positional arguments and the keyword names K.  Sources [SPos i], [SKw n], [SSelf]
   stand for the caller's objects.  Nothing here looks at the generated entry point. *)
From Coq Require Import ZArith List Bool Arith.
Import ListNotations.
From OvldV Require Import Model.Entry.

(* ---------- what Python itself requires of a def: kinds in order, no required positional after an optional
   one, distinct names ---------- *)
Fixpoint kinds_sorted (stage : nat) (ps : list param) : bool :=     (* stage 0: posonly, 1: pos-or-kw, 2: kw-only *)
  match ps with
  | [] => true
  | p :: r =>
      let st := match p_kind p with PosOnly => 0 | PosKw => 1 | KwOnly => 2 end in
      (stage <=? st) && kinds_sorted st r
  end.

Fixpoint req_prefix (seen_opt : bool) (ps : list param) : bool :=   (* over the positional parameters *)
  match ps with
  | [] => true
  | p :: r => if p_req p then negb seen_opt && req_prefix seen_opt r else req_prefix true r
  end.

Definition sig_wf (s : msig) : bool :=
  kinds_sorted 0 (m_params s) && req_prefix false (sig_pos_params s) && nodupb Nat.eqb (map p_name (m_params s)).

(* ---------- a method accepts a call shape: CPython's binding of the shape to the method's own parameters ---------- *)
Definition accepts (s : msig) (k : nat) (K : list nat) : bool :=
  match bind (sig_eparams s) (caller_pos (m_self s) k) (caller_kws K) with Some _ => true | None => false end.

(* ---------- names that denote positional parameters, and their position ---------- *)
Definition is_poskw_named (n : nat) (p : param) : bool := kind_eqb (p_kind p) PosKw && Nat.eqb (p_name p) n.

Fixpoint index_where {X} (f : X -> bool) (i : nat) (l : list X) : option nat :=
  match l with [] => None | x :: r => if f x then Some i else index_where f (S i) r end.

Definition is_pos_name (sigs : list msig) (n : nat) : bool :=
  existsb (fun s => existsb (is_poskw_named n) (m_params s)) sigs.

Fixpoint name_pos (sigs : list msig) (n : nat) : option nat :=
  match sigs with
  | [] => None
  | s :: r => match index_where (is_poskw_named n) 0 (m_params s) with
              | Some i => Some i
              | None => name_pos r n
              end
  end.

(* ---------- S: what must be forwarded ----------
   positionals: the k supplied objects in order, followed by the positional parameters supplied by keyword,
   each at the position of the parameter it names (these must continue the positions without a gap --
   otherwise the call cannot be forwarded positionally and S is undefined: [None]);
   keywords: exactly the remaining names of K. *)
Definition spec_forward (sigs : list msig) (self : bool) (k : nat) (K : list nat)
  : option (list src * list nat) :=
  let posK := filter (is_pos_name sigs) K in
  let kwK := filter (fun n => negb (is_pos_name sigs n)) K in
  let extra := map (fun j => find (fun n => onat_eqb (name_pos sigs n) (Some j)) posK) (seq k (length posK)) in
  if forallb (fun o => match o with Some _ => true | None => false end) extra
  then Some (caller_pos self k ++ flat_map (fun o => match o with Some n => [SKw n] | None => [] end) extra, kwK)
  else None.

Fixpoint list_eqb {X} (e : X -> X -> bool) (l1 l2 : list X) : bool :=
  match l1, l2 with
  | [], [] => true
  | x :: xs, y :: ys => e x y && list_eqb e xs ys
  | _, _ => false
  end.

Definition same_set (l1 l2 : list nat) : bool :=
  forallb (fun x => memb Nat.eqb x l2) l1 && forallb (fun x => memb Nat.eqb x l1) l2.

Definition key_pos (key : list keyent) : list src :=
  map ke_src (filter (fun k => match ke_name k with None => true | Some _ => false end) key).
Definition key_named (key : list keyent) : list (nat * src) :=
  flat_map (fun k => match ke_name k with Some n => [(n, ke_src k)] | None => [] end) key.

Definition kw_exact (l : list (nat * src)) (names : list nat) : bool :=
  nodupb Nat.eqb (map fst l) && same_set (map fst l) names
  && forallb (fun ns => src_eqb (snd ns) (SKw (fst ns))) l.

(* the forwarded call and the lookup key are exactly what S prescribes *)
Definition fwd_ok (sigs : list msig) (self : bool) (k : nat) (K : list nat)
           (key : list keyent) (fpos : list src) (fkw : list (nat * src)) : bool :=
  match spec_forward sigs self k K with
  | None => false
  | Some (epos, ekw) =>
      list_eqb src_eqb fpos epos                                  (* the supplied positionals, in order, nothing else *)
      && kw_exact fkw ekw                                         (* exactly the supplied keywords, each its own object *)
      && list_eqb src_eqb (key_pos key) (skipn (if self then 1 else 0) epos)    (* key: every supplied positional, in order *)
      && kw_exact (key_named key) ekw                             (* key: every supplied keyword *)
  end.

(* ---------- domains (decidable on the case) ---------- *)
(* number of positional parameters the call supplies, by position or by keyword *)
Definition supplied_positions (sigs : list msig) (k : nat) (K : list nat) : nat :=
  k + length (filter (is_pos_name sigs) K).

(* class of KF-02 (repaired in /repo: the early exits now keep the keyword parts; kept to name the shapes that used
   to fail): some positional parameter is omitted and a keyword argument is supplied that is keyword-only, or names a
   positional parameter beyond the first omitted one. *)
Definition kf02_class (sigs : list msig) (k : nat) (K : list nat) : bool :=
  (supplied_positions sigs k K <? npos sigs)
  && (negb (is_nil (filter (fun n => negb (is_pos_name sigs n)) K))
      || match spec_forward sigs false k K with None => true | Some _ => false end).

(* classifier of KF-31, what is left of it: some positional parameter is omitted and a keyword names a positional
   parameter beyond the first omitted one (S is undefined: the keyword-supplied positionals do not continue the supplied
   prefix) -- the early exit forwards only the prefix, the later positional is dropped. *)
Definition kf31_class (sigs : list msig) (k : nat) (K : list nat) : bool :=
  (supplied_positions sigs k K <? npos sigs)
  && match spec_forward sigs false k K with None => true | Some _ => false end.

(* D of C03_forward_partial = complement of KF-31's class *)
Definition dom_fwd (sigs : list msig) (k : nat) (K : list nat) : bool := negb (kf31_class sigs k K).

(* classifier of KF-03: nothing is supplied and no method has an empty parameter list *)
Definition kf03_class (sigs : list msig) (k : nat) (K : list nat) : bool :=
  Nat.eqb k 0 && is_nil K && negb (existsb (fun s => is_nil (m_params s)) sigs).

(* docs/usage.md: a positional parameter may be given by keyword only if it is not strictly positional:
   every method names it the same (rule 2), nothing before... = it is in the analyzer's positional_* lists,
   and there are not two or more optional ones (the documented "additional restriction") *)
Definition kw_documented (a : analysis) (K : list nat) : bool :=
  forallb (fun n => memb ident_eqb (IUser n) (map IUser (an_kr a ++ an_ko a))
                    || ((length (an_po a) <=? 1) && memb ident_eqb (IUser n) (an_pr a ++ an_po a))) K.
