(* LeafMissing.v -- the code-key decision chain of MultiTypeMap.__missing__ as regenerated from /repo's current source
   (Gen/Leaf.v) equals the chain the state machine's getitem follows. *)
From Coq Require Import ZArith List Bool Arith Lia.
Import ListNotations.
From OvldV Require Import Model.Order Model.Ty Model.Resolve Model.Cache Gen.Leaf.

(* the decision chain of MultiTypeMap.__missing__ for a key with a leading code object *)
Lemma code_action_agree f r s : missing_code_src f r s = code_action_of f r s.
Proof. destruct f, r, s; reflexivity. Qed.

