(* Overlay.v — the documented composition rule, written from the property text (C16, C17) only:
   "a variant, copy or mixin combination behaves as a function whose methods are its parents' methods plus its own,
    its own replacing a parent's method of identical signature"; among parents, a later mixin overrides an earlier one
   (docs/usage.md "Mixins": merge any number of ovlds; the class mechanism lists the bases in order).
   Stated as a lookup rule, independent of how the tables are stored or traversed. *)
From Coq Require Import ZArith List Bool Arith.
Import ListNotations.
From OvldV Require Import Model.Graph.

Fixpoint first_some {A} (l : list (option A)) : option A :=
  match l with
  | [] => None
  | Some v :: _ => Some v
  | None :: r => first_some r
  end.

(* the method for signature key k: the own one if there is one, else that of the last parent that has one *)
Definition overlay_get (k : skey) (parents : list table) (own : table) : option nat :=
  match t_get k own with
  | Some v => Some v
  | None => first_some (map (t_get k) (rev parents))
  end.

(* the rule for same-signature registration ("the older entry gets tiebreak - 1, recursively"), for a plain sequence of
   registrations on an empty function: the j-th most recent method registered for signature s sits at tiebreak -j *)
Definition labels_of (s : nat) (regs : list (nat * nat)) : list nat :=
  map snd (filter (fun r => Nat.eqb (fst r) s) regs).

Definition stack_get (k : skey) (regs : list (nat * nat)) : option nat :=
  match snd k with
  | Zpos _ => None
  | z => nth_error (rev (labels_of (fst k) regs)) (Z.to_nat (- z))
  end.

(* "every function it derives from (directly or through intermediate variants)" without linkback:
   NLPath g c a: a is reached from c by one or more derivations none of which was created with linkback *)
Inductive NLPath (g : graph) : nat -> nat -> Prop :=
| nl_one : forall c y m, g_get g c = Some y -> n_linkback y = false -> In m (n_mixins y) -> NLPath g c m
| nl_step : forall c y m a, g_get g c = Some y -> n_linkback y = false -> In m (n_mixins y) -> NLPath g m a -> NLPath g c a.
