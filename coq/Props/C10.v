(* C10 — value-dependent methods run exactly when their condition holds.
   Theorems only.  Model: Model/Dep.v (isinstance of each constructor; the check EMITTED by each type's codegen;
   generate_dependent_dispatch's strategies; typemap.resolve's chain of per-rank dispatchers with fall-through). *)
From Coq Require Import ZArith List Bool Arith.
Import ListNotations.
From OvldV Require Import Model.Order Model.Ty Model.Codec Model.Resolve Model.Dep Proofs.DepFacts Proofs.TyOrder.

(* the generated check of a type computes isinstance: for a value-dependent type on the instances of its bound (what the
   type-level filter establishes at the top level); under | and & each dependent member is wrapped in its bound test, so
   a user condition is never reached with a value outside its bound.  Any nesting depth.
   (Full since the repairs of KF-14 -- bound test for members -- KF-50 and KF-51; before them this was refuted.) *)
Theorem C10_emit_is_instance : forall sub hasm chk utab, (forall c, sub c C_OBJECT = true) ->
  forall t v, prod_tuple t = true -> plain_val sub v = true -> emit_ok sub hasm chk utab t v.
Proof. exact emit_is_instance. Qed.
Print Assumptions C10_emit_is_instance.

(* counting strategy: the unique handler whose conjunction of checks holds; none: fall through; several: ambiguity *)
Theorem C10_count_exact : forall sub hasm chk utab hs slots args,
  no_exc sub hasm chk utab slots args hs ->
  count_go sub hasm chk utab (map m_id hs) slots args hs [] =
    match map m_id (filter (holds sub hasm chk utab slots args) hs) with
    | [h] => RHandler h
    | [] => RFall
    | _ => RAmbig (map m_id hs)
    end.
Proof. exact count_exact. Qed.
Print Assumptions C10_count_exact.

(* if-chain strategy: the first handler whose conjunction holds -- the counting answer whenever at most one can hold *)
Theorem C10_chain_first : forall sub hasm chk utab slots args hs,
  no_exc sub hasm chk utab slots args hs ->
  chain_go sub hasm chk utab slots args hs =
    match filter (holds sub hasm chk utab slots args) hs with
    | h :: _ => RHandler (m_id h)
    | [] => RFall
    end.
Proof. exact chain_first. Qed.
Print Assumptions C10_chain_first.

Theorem C10_chain_is_count_when_exclusive : forall sub hasm chk utab hs slots args,
  no_exc sub hasm chk utab slots args hs -> length (filter (holds sub hasm chk utab slots args) hs) <= 1 ->
  chain_go sub hasm chk utab slots args hs = count_go sub hasm chk utab (map m_id hs) slots args hs [].
Proof. exact chain_is_count_when_exclusive. Qed.
Print Assumptions C10_chain_is_count_when_exclusive.

(* whatever the two computed strategies return is a handler of the group all of whose emitted checks hold *)
Theorem C10_chain_sound : forall sub hasm chk utab slots args hs i,
  chain_go sub hasm chk utab slots args hs = RHandler i ->
  exists h, In h hs /\ m_id h = i /\ conj sub hasm chk utab h slots args = Some true.
Proof. exact chain_sound. Qed.
Print Assumptions C10_chain_sound.

Theorem C10_count_sound : forall sub hasm chk utab hs slots args i,
  count_go sub hasm chk utab (map m_id hs) slots args hs [] = RHandler i ->
  exists h, In h hs /\ m_id h = i /\ conj sub hasm chk utab h slots args = Some true.
Proof. exact count_sound. Qed.
Print Assumptions C10_count_sound.

(* "when the condition holds it is preferred over methods declared on the bound or its subclasses": in the type
   order every value-dependent type with a class bound b is strictly more specific than every class comparable with b
   (its subclasses and its superclasses), from both sides; with the level lemma of C02 (a strictly more specific
   registered type gets a strictly larger level) a holding dependent method therefore outranks them. *)
Theorem C10_preferred_over_bound_classes : forall sub hasm chk fresh n t b c,
  is_dep t = true -> dep_bound t = Cls b -> (sub c b = true \/ sub b c = true) ->
  tord sub hasm chk fresh (S (S n)) t (Cls c) = Some LESS /\ tord sub hasm chk fresh (S (S n)) (Cls c) t = Some MORE.
Proof. exact tord_dep_over_class. Qed.
Print Assumptions C10_preferred_over_bound_classes.

(* KF-08 (open): call_next from a method of a value-dependent rank with another value of the same types goes to the NEXT
   rank: same-rank siblings whose condition holds for the new value are skipped.
   f(x: Dependent[int, >0]) -> call_next(-x); f(x: Dependent[int, <0]); f(x: int):  f(5) reaches the int method for -5,
   while the function without the first method runs the <0 method for -5. *)
Definition wh : hier :=
  {| h_supers := [[0]; [0; 1]; [0; 2]]; h_meths := []; h_preds := []; h_fresh := [0] |}.
Definition ut (f : nat) (v : val) : bool :=
  match f, v with 10, VInt z => Z.ltb 0 z | 11, VInt z => Z.ltb z 0 | _, _ => false end.
Definition pos := mkMeth 0 [Fn 10 [] (Cls 2)] [] 1 [] 0 0.
Definition neg := mkMeth 1 [Fn 11 [] (Cls 2)] [] 1 [] 0 0.
Definition int_ := mkMeth 2 [Cls 2] [] 1 [] 0 0.
Definition kint := mkKey [Cls 2] [].
Theorem C10_next_sibling_refuted :
  dcall (hsub wh) (hhasm wh) (hchk wh) (hfresh wh) ut [pos; neg; int_] kint [(SPos 0, VInt 5)] = DRun 0 /\
  dnext (hsub wh) (hhasm wh) (hchk wh) (hfresh wh) ut [pos; neg; int_] 0 kint [(SPos 0, VInt (-5))] = DRun 2 /\
  dcall (hsub wh) (hhasm wh) (hchk wh) (hfresh wh) ut [neg; int_] kint [(SPos 0, VInt (-5))] = DRun 1.
Proof. vm_compute. repeat split; reflexivity. Qed.
Print Assumptions C10_next_sibling_refuted.

(* non-vacuity: a dependent method preferred over its bound when it holds, skipped when it does not, ambiguity when two hold *)
Definition both := mkMeth 3 [Fn 12 [] (Cls 2)] [] 1 [] 0 0.
Definition ut2 (f : nat) (v : val) : bool := match f, v with 10, VInt z => Z.ltb 0 z | 12, VInt z => Z.ltb 3 z | _, _ => false end.
Example C10_nonvacuous :
  let dc ms v := dcall (hsub wh) (hhasm wh) (hchk wh) (hfresh wh) ut2 ms kint [(SPos 0, VInt v)] in
  dc [pos; int_] 5%Z = DRun 0 /\ dc [pos; int_] (-5)%Z = DRun 2 /\ dc [pos; both; int_] 5%Z = DAmbig [0; 3] /\
  dc [pos; both; int_] 2%Z = DRun 0.
Proof. vm_compute. repeat split; reflexivity. Qed.

(* ---- which value-dependent methods are "otherwise unordered": parametrised conditions and their wildcards ---- *)
From OvldV Require Import Gen.Leaf Proofs.LeafDep.

(* tie to /repo: FuncDependentType.__lt__ as regenerated from the current source on every run (Gen/Leaf.v) is the
   comparison the model's type order uses *)
Theorem C10_leaf_wildcards : forall a b, fn_like a = true -> dep_lt a b = dep_lt_src (any_flags a) (any_flags b).
Proof. exact dep_lt_agree. Qed.
Print Assumptions C10_leaf_wildcards.

(* two parametrised conditions on the same bound: the order between them is exactly what the wildcards say *)
Theorem C10_same_bound_order : forall sub hasm chk fresh n a b, fn_like a = true -> is_dep b = true -> ty_eqb a b = false ->
  tord sub hasm chk fresh n (dep_bound a) (dep_bound b) = Some SAME ->
  tord sub hasm chk fresh (S n) a b = Some (if dep_lt a b then LESS else if dep_lt b a then MORE else NONE).
Proof. exact tord_same_bound. Qed.
Print Assumptions C10_same_bound_order.

(* ... and they say: strictly more specific exactly when the other has a wildcard wherever this one has one, and one more
   somewhere (same number of parameters) -- slot by slot, not by counting *)
Theorem C10_wildcards_slotwise : forall a b, fn_like a = true ->
  dep_lt a b = Nat.eqb (length (any_flags a)) (length (any_flags b)) && covers (any_flags a) (any_flags b) && more_somewhere (any_flags a) (any_flags b).
Proof. exact dep_lt_slotwise. Qed.
Print Assumptions C10_wildcards_slotwise.

(* crossing wildcards order neither way: such methods are unordered, and both holding is the ambiguity of C10_count_exact *)
Theorem C10_wildcards_crossing_unordered : forall a b, fn_like a = true -> fn_like b = true ->
  more_somewhere (any_flags a) (any_flags b) = true -> more_somewhere (any_flags b) (any_flags a) = true ->
  dep_lt a b = false /\ dep_lt b a = false.
Proof. exact dep_lt_crossing. Qed.
Print Assumptions C10_wildcards_crossing_unordered.

(* which of the three generated strategies serves a rank: the two decisions of generate_dependent_dispatch, regenerated
   from recode.py on every run, are the ones the dispatch model's choose_strategy is built from *)
Theorem C10_leaf_keyable : forall distinct nkeyed nfeat, keyable_src distinct nkeyed nfeat = keyable_decide distinct nkeyed nfeat.
Proof. exact keyable_agree. Qed.
Print Assumptions C10_leaf_keyable.

Theorem C10_leaf_final_choice : forall haskey exclusive, final_src haskey exclusive = final_choice haskey exclusive.
Proof. exact final_choice_agree. Qed.
Print Assumptions C10_leaf_final_choice.

(* KF-56: "when the condition does not hold, dispatch continues as if that method were absent" is false of the faithful
   model: ranks are formed from the declared types before any condition is looked at.  Classes: 0 object, 2 int below 5,
   4 B below 3 A.  f(x: int, y: B), f(x: Literal[7], y: B), f(x: Dependent[5, c], y: A) with c(1) true: f(1, B()) runs the
   third method -- the Literal method, whose condition fails for 1, dominates the int method and keeps it out of the first
   rank -- while the function WITHOUT the Literal method is ambiguous for the same call. *)
Definition wh56 : hier :=
  {| h_supers := [[0]; [0; 1]; [0; 2; 5]; [0; 3]; [0; 3; 4]; [0; 5]]; h_meths := []; h_preds := []; h_fresh := [0] |}.
Definition ut56 (f : nat) (v : val) : bool := match f, v with 10, VInt z => Z.eqb z 1 | _, _ => false end.
Definition m_int := mkMeth 1 [Cls 2; Cls 4] [] 2 [] 0 0.
Definition m_lit := mkMeth 2 [Lit [VInt 7] (Cls 0); Cls 4] [] 2 [] 0 0.
Definition m_cond := mkMeth 3 [Fn 10 [] (Cls 5); Cls 3] [] 2 [] 0 0.
Definition k56 := mkKey [Cls 2; Cls 4] [].
Definition a56 := [(SPos 0, VInt 1); (SPos 1, VObj 4 0)].
Theorem C10_absent_refuted :
  dcall (hsub wh56) (hhasm wh56) (hchk wh56) (hfresh wh56) ut56 [m_int; m_lit; m_cond] k56 a56 = DRun 3 /\
  dcall (hsub wh56) (hhasm wh56) (hchk wh56) (hfresh wh56) ut56 [m_int; m_cond] k56 a56 = DAmbig [1; 3].
Proof. vm_compute. split; reflexivity. Qed.
Print Assumptions C10_absent_refuted.
