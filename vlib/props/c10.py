"""C10 — value-dependent methods run exactly when their condition holds."""
import json, collections
from .. import model, progs
from ..world import world_from, dec_val, enc_val
from . import dep_common as D

CLAIM = dict(
    text="Coq theorems on the model of value-dependent dispatch (Model/Dep.v: isinstance of every constructor, the checks the codegen of each type EMITS, the if-chain / lookup-table / counting strategy selection of generate_dependent_dispatch, the per-rank dispatchers with fall-through of typemap.resolve): the emitted check of every type computes isinstance -- for a value-dependent type on the instances of its bound, and under | and & each dependent member is wrapped in its bound test, so a user condition is never reached outside its bound (C10_emit_is_instance, any nesting; full since the repairs of KF-14 / KF-50 / KF-51); whatever strategy is selected, a handler returned by a rank's dispatcher has every one of its emitted checks true (C10_chain_sound, C10_count_sound); under counting the dispatcher returns the unique handler whose conjunction holds, falls through when none holds and raises the ambiguity when several hold (C10_count_exact); the if-chain returns the first handler whose conjunction holds (C10_chain_first) and equals counting when the conditions are exclusive (C10_chain_is_count_when_exclusive); a value-dependent type with class bound b is strictly more specific, from both sides, than every class comparable with b (C10_preferred_over_bound_classes); refuted: call_next from a method of a dependent rank skips its same-rank siblings (C10_next_sibling_refuted, KF-08). Tie to /repo: generated mixtures of dependent and static methods (user predicates with random truth tables that log every value they are asked about and answer with truthy / falsy non-bools, the built-in value types, | and & combinations, 1-2 positions, keyword-only dependent parameters, priorities) are run over a value corpus through the real Ovld -- as a plain function and as the methods of one class body -- and through the extracted model: the method entered / error kind must agree exactly; the property oracle (independent of the model) checks on the implementation that every entered method's parameters are isinstance of their annotations, that every predicate was only asked about instances of its bound, and compares with a Python reading of the documented rule. Which dependent methods are 'otherwise unordered': for two parametrised conditions on the same bound the order is exactly what their typing.Any wildcards say (C10_same_bound_order), that comparison is FuncDependentType.__lt__ as regenerated from /repo's source on every run (C10_leaf_wildcards), it is slot-wise -- strictly more specific iff the other has a wildcard wherever this one has one and one more somewhere (C10_wildcards_slotwise) -- and crossing wildcards order neither way (C10_wildcards_crossing_unordered), so both holding is the ambiguity of C10_count_exact; directed programs with a three-parameter user condition run every such pair through the real dispatch. Which generated strategy serves a rank: the per-position decision for Literal-like types (shared key -> counting, fewer than four types -> if-chain, else table) and the final choice (table / if-chain / counting) are regenerated from recode.py on every run and proved to be the decisions the model's choose_strategy is built from (C10_leaf_keyable, C10_leaf_final_choice). The clause 'when the condition does not hold, dispatch continues as if that method were absent' is refuted on the faithful model (C10_absent_refuted, KF-56: a non-holding value-dependent method still dominates other candidates when the ranks are formed); deviations of that class are recognised by re-running the call on a function built without the non-holding dependent methods.",
    note="Trusted: as C02, plus the value encodings and the truth tables of user predicates (tables are data for the model; the real predicates are generated from the same tables). Regexp is modelled for literal patterns with ^ / $ anchors only. Membership tests follow Python's == (True == 1): Model/Ty.v val_pyeq.",
    technique="Coq proof (strategy soundness, emitted check vs isinstance) + differential correspondence over a value corpus", design="6 C10")

THEOREMS = ["C10_emit_is_instance", "C10_count_exact", "C10_chain_first", "C10_chain_is_count_when_exclusive", "C10_chain_sound", "C10_count_sound", "C10_preferred_over_bound_classes", "C10_next_sibling_refuted", "C10_leaf_wildcards", "C10_same_bound_order", "C10_wildcards_slotwise", "C10_wildcards_crossing_unordered", "C10_leaf_keyable", "C10_leaf_final_choice", "C10_absent_refuted"]
ASSUMPTIONS = ["user predicates are total on the corpus (they are table lookups) so that only the library's own checks can raise"]


def py_isinstance(obj, ann):
    try:
        return bool(isinstance(obj, ann))
    except Exception as e:  # noqa
        return ("exc", type(e).__name__)


def has_dep_arm_under_combo(e):
    """classifier of KF-14: a dependent type sits under a Union / Intersection"""
    t = e[0]
    if t in (2, 3):
        return any(x[0] in (8, 9, 10, 11) or has_dep_arm_under_combo(x) for x in e[1:])
    return False


def check(ctx, prog, stats, samples):
    res, w, b = D.eval_dep_program(prog)
    byid = {d["id"]: d for d in prog["defs"]}
    from . import resolve_common as R
    mms = R.model_defs(prog["defs"])
    keys = [[[[0, D.cls_of_value(w, dec_val(e, w))] for e in call["vals"]],
             [[int(k), [0, D.cls_of_value(w, dec_val(e, w))]] for k, e in call.get("kwvals", {}).items()]] for call in prog["calls"]]
    art = model.run_cases([[22, w.encode(), mms, keys]])[0]
    # the same program as the methods of one class body: self must be threaded through the generated dispatchers
    # (all three strategies, their fall-through and their error paths) -- outcomes must be those of the plain function
    try:
        bm = progs.BuiltClass(world_from(prog["spec"]), prog["defs"], utab=prog.get("utab"))
    except Exception as e:  # noqa
        ctx.violation(f"the program cannot be written as a class body: {type(e).__name__}: {str(e)[:120]}", dict(prog, calls=prog["calls"][:1]))
        return
    for call, r in zip(prog["calls"], res):
        vsm = [dec_val(e, bm.w) for e in call["vals"]]
        kwm = {f"k{k}": dec_val(e, bm.w) for k, e in call.get("kwvals", {}).items()}
        om, em = bm.call(vsm, kwm)
        stats["evaluations"] += 1
        stats["method_mode_calls"] += 1
        if (D.impl_kind(om), em) != (r["impl"], r["entered"]):
            ctx.violation(f"as a method of a class the call gives {(om, em)}, as a plain function {(r['impl_raw'], r['entered'])}", dict(prog, calls=[call], method_mode=True))
            return
    for call, r, artifact in zip(prog["calls"], res, art):
        stats["evaluations"] += 1
        case = dict(prog, calls=[call])
        stats["hist"][r["impl"][0]] += 1
        stats["distinct"].add(hash(json.dumps([prog["defs"], call, prog["utab"]])))
        if r["impl"] != r["model"]:
            ctx.violation(f"implementation {r['impl_raw']} != model {r['model']}", case, kind="correspondence")
            # the tie is broken for this call: ask the documented rule directly whether the implementation is also wrong
            if not any(d.get("body") in ("nextv",) for d in prog["defs"]):
                vs0 = [dec_val(e, w) for e in call["vals"]]
                kw0 = {int(k): dec_val(e, w) for k, e in call.get("kwvals", {}).items()}
                exp0 = D.py_spec_dep(w, b, prog["defs"], vs0, kw0)
                if exp0 is not None and exp0 != r["impl"] and (r["model"] == exp0 or not (exp0 == ["ambig"] and D.kf01_shape(w, b, prog["defs"], vs0, r["impl"], kw0))):
                    ctx.violation(f"implementation {r['impl']} deviates from the documented rule {exp0}", case)
            continue
        # oracle 1: every entered method received instances of its annotations (C01 at the value level)
        for mid, rec in zip(r["entered"], r["received"]):
            d = byid[mid]
            for i, t in enumerate(d["pos"]):
                ok = py_isinstance(rec[f"a{i}"], b.ty(t))
                if ok is not True:
                    ctx.violation(f"method {mid} entered with a{i}={rec[f'a{i}']!r} but isinstance(value, annotation) is {ok}", case)
            for (k, t, req) in d.get("kw", []):
                if rec.get(f"k{k}") is not progs.DEFAULT:
                    ok = py_isinstance(rec[f"k{k}"], b.ty(t))
                    if ok is not True:
                        ctx.violation(f"method {mid} entered with k{k}={rec[f'k{k}']!r} but isinstance(value, annotation) is {ok}", case)
        # oracle 2: user conditions only asked about instances of their bound
        bounds = {}

        def collect(e):
            if e[0] == 9 and e[1] >= 10:
                bounds.setdefault(e[1], []).append(e[2])      # one condition may be given several bounds in one function
            if e[0] in (2, 3):
                for x in e[1:]:
                    collect(x)
        for d in prog["defs"]:
            for t in d["pos"]:
                collect(t)
        for fid, ve in r["predlog"]:
            stats["predicate_evaluations"] += 1
            if fid in bounds and ve != ["?"]:
                v = dec_val(ve, w)
                if not any(py_isinstance(v, b.ty(bd)) is True for bd in bounds[fid]):
                    ctx.violation(f"user condition {fid} was evaluated on {v!r}, which is not an instance of its bound", case)
        if r["impl"] == ["exc"]:
            if r["impl_raw"] == ["exc", "CycleError"] and c06_hookvshook(prog):
                # KF-23: two registered types of one slot each claim to be below the other (hook-vs-hook comparison,
                # KF-06), the dependency graph of the type order gets a cycle; the model predicts the same failure
                ctx.known_hit("KF-23", case)
                stats["kf23"] += 1
                continue
            ctx.violation(f"an internal exception escaped from the dispatcher: {r['impl_raw']}", case)
        # oracle 3: the documented rule (Python reading of docs/dependent.md and the property text)
        if not any(d.get("body") in ("nextv",) for d in prog["defs"]):
            vs = [dec_val(e, w) for e in call["vals"]]
            kws = {int(k): dec_val(e, w) for k, e in call.get("kwvals", {}).items()}
            exp = D.py_spec_dep(w, b, prog["defs"], vs, kws)
            if exp is None:
                stats["rule_silent"] += 1
            elif exp != r["impl"]:
                if artifact or (exp == ["ambig"] and D.kf01_shape(w, b, prog["defs"], vs, r["impl"], kws)):
                    ctx.known_hit("KF-01", case)
                    stats["kf01"] += 1
                elif kf56_class(prog, w, b, vs, kws, exp):
                    ctx.known_hit("KF-56", case)
                    stats["kf56"] += 1
                else:
                    ctx.violation(f"implementation {r['impl']} deviates from the documented rule {exp}", case)
            else:
                stats["rule_agreed"] += 1
    if len(samples) < 2:
        samples.append({"defs": prog["defs"], "call": prog["calls"][0], "result": {k: res[0][k] for k in ("impl", "model", "entered")}})


def kf56_class(prog, w, b, vs, kws, exp):
    """KF-56: the outcome becomes the documented rule's verdict once the value-dependent methods whose conditions do not
    hold for this call are taken out of the function (a non-holding method must count as absent, and does not)"""
    def has_dep(t):
        return D.is_dep_enc(t) or (t[0] in (2, 3) and any(has_dep(x) for x in t[1:]))
    rest = []
    removed = 0
    for d in prog["defs"]:
        slots = list(d["pos"]) + [t for (k, t, req) in d.get("kw", [])]
        if any(has_dep(t) for t in slots) and len(d["pos"]) == len(vs):
            dkw = {int(k): t for (k, t, req) in d.get("kw", [])}
            vals = list(vs) + [kws[k] for k in sorted(dkw) if k in kws]
            if len(vals) == len(slots) and not all(py_isinstance(v, b.ty(t)) is True for v, t in zip(vals, slots)):
                removed += 1
                continue
        rest.append(dict(d, body="ret"))
    if not removed or not rest:
        return False
    fb = progs.Built(world_from(prog["spec"]), rest, utab=prog.get("utab"))
    out = D.impl_kind(fb.call([dec_val(enc_val(v, w), fb.w) for v in vs], {f"k{k}": v for k, v in kws.items()})[0])
    return out == exp


def c06_hookvshook(prog):
    from .c06 import hookvshook
    return hookvshook(prog)


def check_next(ctx, stats):
    """call_next with ANOTHER value of the same class from a dependent method: the model's dnext, and the property oracle
    (what the function without the caller chooses for the new value); KF-08 when a same-rank sibling is skipped"""
    rng = ctx.rng
    from ..world import World
    w = World([])
    thresholds = rng.sample([-3, -1, 0, 1, 3], 3)
    corpus = [enc_val(v) for v in (-7, -2, -1, 1, 2, 7)]
    utab = {}
    defs = []
    for i, th in enumerate(thresholds):
        fid = 10 + i
        gt = rng.random() < 0.5
        utab[str(fid)] = [e for e in corpus if (e[1] > th if gt else e[1] < th)]
        defs.append({"id": i, "pos": [[9, fid, [0, D.INT]]], "npos_req": 1, "kw": [], "prio": rng.choice([0, 0, 1]),
                     "body": rng.choice(["nextv", "nextv", "ret"])})
    defs.append({"id": 9, "pos": [[0, D.INT]], "npos_req": 1, "kw": [], "prio": 0, "body": "ret"})
    prog = {"spec": [], "defs": defs, "utab": utab, "calls": [{"vals": [e]} for e in corpus]}
    b = progs.Built(w, defs, utab=utab)
    from . import resolve_common as R
    mms = R.model_defs(defs)
    ut = [[int(f)] + vals for f, vals in utab.items()]
    byid = {d["id"]: d for d in defs}
    for call in prog["calls"]:
        v = dec_val(call["vals"][0], w)
        out, entered = b.call([v])
        out = D.impl_kind(out)
        stats["evaluations"] += 1
        case = dict(prog, calls=[call])
        # model: follow the chain with alternating values
        key = [[[0, D.INT]], []]
        cur_v = v
        mo_entered = []
        cur = D.dec_dout(model.run_cases([[20, w.encode(), ut, mms, [[0, key, D.slot_args([enc_val(cur_v)])]]]])[0][0])
        for _ in range(8):
            if cur[0] != "run":
                break
            mo_entered.append(cur[1])
            if byid[cur[1]].get("body") != "nextv":
                break
            cur_v = progs.alt_value(cur_v)
            cur = D.dec_dout(model.run_cases([[20, w.encode(), ut, mms, [[1, cur[1], key, D.slot_args([enc_val(cur_v)])]]]])[0][0])
        if (out, entered) != (cur, mo_entered) and not (out[0] == "run" and cur[0] == "run" and entered == mo_entered):
            ctx.violation(f"call_next walk: implementation {(out, entered)} != model {(cur, mo_entered)}", case, kind="correspondence")
            continue
        # oracle: first delegation step against the function without the caller
        if len(entered) >= 1 and byid[entered[0]].get("body") == "nextv":
            caller = byid[entered[0]]
            # "the current method and everything ranked above it": here all dependent types share the bound int, so
            # ranked above = strictly higher priority
            rest = [dict(d, body="ret") for d in defs if d["id"] != caller["id"] and d["prio"] <= caller["prio"]]
            fb = progs.Built(World([]), rest, utab=utab)
            nv = progs.alt_value(v)
            exp = D.impl_kind(fb.call([nv])[0])
            got = ["run", entered[1]] if len(entered) > 1 else out
            stats["next_steps"] += 1
            if exp != got:
                # KF-08: a rank-mate of the caller (dependent, same priority) holds for the new value and is skipped
                mates = [d for d in rest if d["pos"][0][0] == 9 and d["prio"] == caller["prio"]
                         and enc_val(nv) in utab[str(d["pos"][0][1])]]
                if mates and (exp == ["ambig"] or (exp[0] == "run" and exp[1] in [m["id"] for m in mates])):
                    ctx.known_hit("KF-08", case)
                    stats["kf08"] += 1
                else:
                    ctx.violation(f"call_next from method {entered[0]} with the value {nv!r} reached {got}; the function without that method and those ranked above it chooses {exp}", case)


def run(ctx):
    stats = collections.Counter()
    stats = {"evaluations": 0, "hist": collections.Counter(), "distinct": set(), "kf01": 0, "kf08": 0, "programs": 0,
             "predicate_evaluations": 0, "rule_silent": 0, "rule_agreed": 0, "next_steps": 0, "method_mode_calls": 0, "directed_kw": 0, "directed_nested": 0, "directed_wildcard": 0, "directed_multipos": 0, "kf23": 0, "kf56": 0}
    samples = []
    n = 80 if ctx.quick() else 4000
    for prog in D.directed_kw_programs(ctx.rng):
        check(ctx, prog, stats, samples)
        stats["programs"] += 1
        stats["directed_kw"] += 1
    for prog in D.directed_multipos_programs(ctx.rng):
        check(ctx, prog, stats, samples)
        stats["programs"] += 1
        stats["directed_multipos"] += 1
    for prog in D.directed_wildcard_programs(ctx.rng):
        check(ctx, prog, stats, samples)
        stats["programs"] += 1
        stats["directed_wildcard"] += 1
    for prog in D.directed_nested_programs(ctx.rng):
        check(ctx, prog, stats, samples)
        stats["programs"] += 1
        stats["directed_nested"] += 1
    for _ in range(n):
        prog = D.gen_dep_program(ctx.rng, steer=ctx.rng.choice([None, None, None, "literals", "mixed", "kwonly", "keyed_other"]))
        check(ctx, prog, stats, samples)
        stats["programs"] += 1
        if len(ctx.violations) > 5:
            break
    for _ in range(10 if ctx.quick() else 300):
        check_next(ctx, stats)
    return {"evaluations": stats["evaluations"], "distinct_nontrivial": len(stats["distinct"]),
            "rule": "random mixtures of 2-6 dependent and static methods over 1-2 positions (user predicates with random truth tables, Literal, StartsWith/EndsWith/Regexp/HasKey, tuple[...], Sequence/Collection element checks, | and & of two of them, priorities 0/1; a quarter of the programs are Literal families steering the table / if-chain / counting strategies) x 14 calls over a 20+ value corpus covering every bound; plus threshold families on int whose methods call_next with the negated value; every program has at least one dependent method: all cases count as non-trivial; distinct by (methods, truth tables, call)",
            "samples": samples, "programs": stats["programs"], "outcome_histogram": dict(stats["hist"]),
            "user_condition_evaluations_checked_against_bound": stats["predicate_evaluations"],
            "calls_agreeing_with_documented_rule": stats["rule_agreed"], "calls_where_rule_is_silent": stats["rule_silent"],
            "deviations_attributed_to_KF-01": stats["kf01"], "cycle_errors_attributed_to_KF-23": stats["kf23"], "deviations_attributed_to_KF-56": stats["kf56"], "call_next_steps_checked": stats["next_steps"], "directed_programs_two_dependent_positions": stats["directed_multipos"], "directed_programs_every_strategy_branch_with_keyword": stats["directed_kw"], "directed_programs_nested_combinations": stats["directed_nested"], "directed_programs_parametrised_conditions_with_wildcards": stats["directed_wildcard"], "calls_repeated_as_methods_of_a_class": stats["method_mode_calls"],
            "call_next_deviations_attributed_to_KF-08": stats["kf08"], "traces_validated_against_impl": stats["evaluations"]}


def replay(ctx, payload):
    """re-run the recorded program through the same comparisons; reproduced iff it raises a violation again"""
    stats = {"evaluations": 0, "hist": collections.Counter(), "distinct": set(), "kf01": 0, "kf08": 0, "programs": 0,
             "predicate_evaluations": 0, "rule_silent": 0, "rule_agreed": 0, "next_steps": 0, "method_mode_calls": 0, "directed_kw": 0, "directed_nested": 0, "directed_wildcard": 0, "directed_multipos": 0, "kf23": 0, "kf56": 0}
    before = len(ctx.violations)
    check(ctx, payload["case"], stats, [])
    return len(ctx.violations) > before


def replay_finding(ctx, e):
    wit = e.get("witness_C10", e["witness"])
    if e["id"] == "KF-01":
        if "witness_C10" not in e:
            return e["status"] == "open"
        res, w, b = D.eval_dep_program(wit)
        return res[0]["impl"] == wit["expect_impl"]
    if e["id"] == "KF-56":
        res, w, b = D.eval_dep_program(wit)
        res2, _, _ = D.eval_dep_program(dict(wit, defs=[d for d in wit["defs"] if d["id"] != wit["without"]]))
        return res[0]["impl"] == wit["expect_impl"] and res2[0]["impl"] == wit["expect_without"]
    if e["id"] == "KF-08":
        from ..world import World
        b = progs.Built(World([]), wit["defs"], utab=wit["utab"])
        out, entered = b.call([dec_val(wit["calls"][0]["vals"][0], b.w)])
        return entered == wit["expect_entered"]
    res, w, b = D.eval_dep_program(wit)
    r = res[0]
    if "expect_entered" in wit:
        return r["entered"] == wit["expect_entered"]
    return r["impl"] == wit["expect_impl"]
