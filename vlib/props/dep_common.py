"""Programs with value-dependent annotations (Literal, Dependent[bound, predicate], StartsWith, HasKey, Regexp,
tuple[...], the shallow element checks and their | and & combinations), run through the real Ovld and the model (Model/Dep.v)."""
import json
from .. import model, progs
from ..world import World, random_spec, world_from, enc_val, dec_val, METHOD_NAMES

INT, STR, BOOL, LIST, TUPLE, DICT = 2, 3, 4, 5, 6, 7


def value_corpus(w):
    vals = [1, 2, 3, 7, -1, "a", "ab", "abc", "b", "xb", (1, "a"), (1, 2), ("a", "b"), (), [1], ["a"], [],
            {"k": 1}, {"j": "a", "k": 2}, {}, None]
    for c in w.user_ids():
        if w.instantiable(c):
            vals.append(w.instance(c, 0))
    return vals


def cls_of_value(w, v):
    return w.cid(type(v))


def gen_dep_type(rng, w, fids, utab, corpus_enc, depth=1, allow_combo=True):
    """returns a type encoding; registers user predicates in utab"""
    r = rng.random()
    if allow_combo and depth > 0 and r < 0.22:
        kind = rng.choice([2, 2, 3])
        members = [gen_dep_type(rng, w, fids, utab, corpus_enc, depth - 1, depth > 1) for _ in range(2)]
        if depth > 1 and rng.random() < 0.5:
            # an inner combination next to a plain class: no value-dependent type among the direct members
            members = [[rng.choice([2, 3])] + [gen_dep_type(rng, w, fids, utab, corpus_enc, 0, False) for _ in range(2)],
                       [0, rng.choice([INT, STR, TUPLE])]]
            rng.shuffle(members)
        return [kind] + members
    r = rng.random()
    if r < 0.3:
        pool = rng.choice([[1, 2, 3, 7], ["a", "ab", "b"], [1, 2, 3, 7], [1, "a", 2]])
        vals = rng.sample(pool, rng.randint(1, min(3, len(pool))))
        b = [0, w.cid(type(vals[0]))] if len({type(v) for v in vals}) == 1 else [0, 0]
        return [8, b] + [enc_val(v) for v in vals]
    if r < 0.55:
        fid = fids[0]
        fids[0] += 1
        bound = rng.choice([[0, INT], [0, INT], [0, STR], [0, 0], [0, TUPLE]])
        cands = [e for e in corpus_enc]
        true = [e for e in cands if rng.random() < 0.45]
        utab[fid] = true
        return [9, fid, bound]
    if r < 0.7:
        name = rng.choice([0, 1, 3])
        lit = rng.choice(["a", "ab", "b"])
        if name == 3:
            lit = rng.choice(["^a", "b$", "b"])
        return [9, name, [0, STR], [1, enc_val(lit)]]
    if r < 0.78:
        return [9, 2, [0, 9], [1, enc_val(rng.choice(["k", "j"]))]]       # HasKey, bound Mapping (class id 9)
    if r < 0.9:
        n = rng.randint(0, 2)
        return [11, [0, TUPLE]] + [[0, rng.choice([INT, STR, 0])] for _ in range(n)]
    f = rng.choice([4, 5])
    return [10, f, [0, LIST], [0, rng.choice([INT, STR, 0])]]


def gen_dep_program(rng, steer=None):
    spec = random_spec(rng, n_user=rng.randint(1, 3), kinds=("plain", "plain", "abc"))
    w = World(spec)
    corpus = value_corpus(w)
    corpus_enc = [enc_val(v, w) for v in corpus]
    fids = [10]
    utab = {}
    npos = rng.choice([1, 1, 1, 2])
    defs = []
    n = rng.randint(2, 6)
    dep_pos = rng.randrange(npos)
    static_pool = [0, INT, STR, TUPLE, LIST, DICT] + w.user_ids()
    if steer == "mixed":
        # ranks mixing a dependent and a static method that are unordered for the argument: a diamond C(A, B) with
        # Dependent[A, p] against B, or two positions with crossing specificity
        spec = [{"kind": "plain", "bases": [], "meths": []}, {"kind": "plain", "bases": [], "meths": []},
                {"kind": "plain", "bases": [0, 1], "meths": []}]
        w = World(spec)
        corpus = value_corpus(w)
        corpus_enc = [enc_val(v, w) for v in corpus]
        A, B, C = w.user_ids()
        utab = {}
        defs = []
        if rng.random() < 0.5:
            npos = 1
            for i, (bound, other) in enumerate([(A, B), (B, A)][: rng.randint(1, 2)]):
                fid = 10 + i
                utab[fid] = [e for e in corpus_enc if rng.random() < 0.5]
                defs.append({"id": 2 * i, "pos": [[9, fid, [0, bound]]], "npos_req": 1, "kw": [], "prio": 0})
                if rng.random() < 0.8:
                    defs.append({"id": 2 * i + 1, "pos": [[0, other]], "npos_req": 1, "kw": [], "prio": 0})
            if rng.random() < 0.5:
                defs.append({"id": 9, "pos": [[0, 0]], "npos_req": 1, "kw": [], "prio": 0})
            calls = [{"vals": [e]} for e in corpus_enc if e[0] == 7] + [{"vals": [rng.choice(corpus_enc)]} for _ in range(4)]
        else:
            npos = 2
            lit = [8, [0, INT]] + [enc_val(v) for v in rng.sample([0, 1, 2, 3], rng.randint(1, 2))]
            defs = [{"id": 0, "pos": [lit, [0, 0]], "npos_req": 2, "kw": [], "prio": 0},
                    {"id": 1, "pos": [[0, INT], [0, INT]], "npos_req": 2, "kw": [], "prio": 0}]
            if rng.random() < 0.5:
                defs.append({"id": 2, "pos": [[0, 0], [0, 0]], "npos_req": 2, "kw": [], "prio": 0})
            ints = [enc_val(v) for v in (0, 1, 2, 3, 7)]
            calls = [{"vals": [rng.choice(ints), rng.choice(ints + [enc_val("a")])]} for _ in range(12)]
        rng.shuffle(defs)
        return {"spec": spec, "defs": defs, "utab": {str(k): v for k, v in utab.items()}, "calls": calls}
    if steer == "keyed_other":
        # >= 4 handlers keyed on distinct Literals at position 0 (lookup-table path); one of them also has a dependent
        # parameter at position 1; crossed specificities keep them all in one rank
        n = rng.randint(4, 6)
        fid = fids[0]; fids[0] += 1
        utab[fid] = [e for e in corpus_enc if e[0] == 0 and e[1] % 2 == 0]        # "even"
        special = rng.randrange(n - 1)                                              # never the last one
        for i in range(n):
            lit = [8, [0, INT], enc_val(i)]
            if i == special:
                pos = [lit, [9, fid, [0, INT]], [0, 0]]
            else:
                pos = [lit, [0, 0], [0, INT]]
            defs.append({"id": i, "pos": pos, "npos_req": 3, "kw": [], "prio": 0})
        if rng.random() < 0.5:
            defs.append({"id": 20, "pos": [[0, 0], [0, 0], [0, 0]], "npos_req": 3, "kw": [], "prio": 0})
        ints = [enc_val(v) for v in (1, 2, 3, 7)]
        calls = [{"vals": [enc_val(rng.randrange(n + 1)), rng.choice(ints), rng.choice(ints)]} for _ in range(14)]
        return {"spec": spec, "defs": defs, "utab": {str(k): v for k, v in utab.items()}, "calls": calls}
    if steer == "kwonly":
        # value-dependent types on keyword-only parameters
        pool = rng.choice([[1, 2, 3, 7], ["a", "ab", "b"]])
        cls = INT if isinstance(pool[0], int) else STR
        for i in range(rng.randint(1, 4)):
            vals = rng.sample(pool, rng.randint(1, 2))
            kwt = [8, [0, cls]] + [enc_val(v) for v in vals]
            if rng.random() < 0.3:
                fid = fids[0]; fids[0] += 1
                utab[fid] = [e for e in corpus_enc if rng.random() < 0.5]
                kwt = [9, fid, [0, cls]]
            defs.append({"id": i, "pos": [[0, rng.choice([0, INT, STR])]], "npos_req": 1, "kw": [[0, kwt, True]], "prio": 0})
        if rng.random() < 0.6:
            defs.append({"id": 8, "pos": [[0, 0]], "npos_req": 1, "kw": [[0, [0, 0], True]], "prio": 0})
        calls = [{"vals": [rng.choice(corpus_enc)], "kwvals": {"0": enc_val(rng.choice(pool + [99, "zz"]))}} for _ in range(14)]
        return {"spec": spec, "defs": defs, "utab": {str(k): v for k, v in utab.items()}, "calls": calls}
    if steer == "literals":
        # many Literal methods on one position: both sides of the lookup-table threshold, overlapping or disjoint
        n = rng.randint(2, 7)
        pool = rng.choice([[1, 2, 3, 7, -1], ["a", "ab", "b", "abc", "xb"]])
        for i in range(n):
            vals = rng.sample(pool, rng.randint(1, 2))
            pos = [[0, 0] for _ in range(npos)]
            pos[dep_pos] = [8, [0, w.cid(type(vals[0]))]] + [enc_val(v) for v in vals]
            defs.append({"id": i, "pos": pos, "npos_req": npos, "kw": [], "prio": 0})
        if rng.random() < 0.6:
            pos = [[0, 0] for _ in range(npos)]
            defs.append({"id": n, "pos": pos, "npos_req": npos, "kw": [], "prio": 0})
    else:
        for i in range(n):
            pos = []
            for p in range(npos):
                if (p == dep_pos and rng.random() < 0.65) or rng.random() < 0.15:
                    pos.append(gen_dep_type(rng, w, fids, utab, corpus_enc, depth=rng.choice([1, 1, 2])))
                else:
                    pos.append([0, rng.choice(static_pool)])
            defs.append({"id": i, "pos": pos, "npos_req": npos, "kw": [], "prio": rng.choice([0, 0, 0, 1])})
    calls = []
    for _ in range(14):
        calls.append({"vals": [rng.choice(corpus_enc) for _ in range(npos)]})
    return {"spec": spec, "defs": defs, "utab": {str(k): v for k, v in utab.items()}, "calls": calls}


def directed_kw_programs(rng):
    """every branch of the three generated strategies (lookup table / if-chain / counting), each reached with a keyword
    argument in the call: a handler matched, none matched with and without a method to fall through to, two matched.
    The value-dependent parameter is the positional one (the keyword one is static) or the keyword one."""
    out = []
    for pool in ([1, 2, 3, 7, 8], ["a", "ab", "b", "abc", "xb"]):
        cls = INT if isinstance(pool[0], int) else STR
        other = "zz" if cls == STR else 99
        for shape in ("one", "chain3", "table4", "table5", "overlap2", "overlap3", "preds2"):
            for fallback in (False, True):
                for where in ("pos", "kw"):
                    spec = random_spec(rng, n_user=1, kinds=("plain",))
                    w = World(spec)
                    utab = {}
                    if shape == "one":
                        types = [[8, [0, cls], enc_val(pool[0])]]
                    elif shape in ("chain3", "table4", "table5"):
                        k = int(shape[-1])
                        types = [[8, [0, cls], enc_val(pool[i])] for i in range(k)]
                    elif shape in ("overlap2", "overlap3"):
                        k = int(shape[-1])
                        types = [[8, [0, cls], enc_val(pool[i]), enc_val(pool[i + 1])] for i in range(k)]
                    else:
                        utab = {10: [enc_val(pool[0]), enc_val(pool[1])], 11: [enc_val(pool[1]), enc_val(pool[2])]}
                        types = [[9, 10, [0, cls]], [9, 11, [0, cls]]]
                    defs = []
                    for i, t in enumerate(types):
                        if where == "pos":
                            defs.append({"id": i, "pos": [t], "npos_req": 1, "kw": [[0, [0, 0], True]], "prio": 0})
                        else:
                            defs.append({"id": i, "pos": [[0, 0]], "npos_req": 1, "kw": [[0, t, True]], "prio": 0})
                    if fallback:
                        defs.append({"id": 20, "pos": [[0, 0]], "npos_req": 1, "kw": [[0, [0, 0], True]], "prio": 0})
                    calls = []
                    for v in pool + [other]:
                        free = enc_val(rng.choice([5, "q", other]))
                        if where == "pos":
                            calls.append({"vals": [enc_val(v)], "kwvals": {"0": free}})
                        else:
                            calls.append({"vals": [free], "kwvals": {"0": enc_val(v)}})
                    out.append({"spec": spec, "defs": defs, "utab": {str(k): v for k, v in utab.items()}, "calls": calls})
    return out


def directed_multipos_programs(rng):
    """handlers with TWO value-dependent positions in one rank, in the shapes that decide between the generated
    strategies: the same Literal at both positions of every handler (diagonal), a shared Literal at one position and
    distinct ones at the other, and crossed pairs -- with 3, 4 and 5 handlers (below / at / above the size where a
    lookup table is considered), with and without a static method to fall through to.  Every pair of pool values is
    called, so each handler is reached with one position matching and the other not."""
    out = []
    for pool in ([1, 2, 3, 7, 8], ["a", "ab", "b", "abc", "xb"]):
        cls = INT if isinstance(pool[0], int) else STR
        other = "zz" if cls == STR else 99
        lit = lambda v: [8, [0, cls], enc_val(v)]
        for k in (3, 4, 5):
            for shape in ("diag", "shared_first", "shared_second", "crossed"):
                for fallback in (False, True):
                    spec = random_spec(rng, n_user=1, kinds=("plain",))
                    if shape == "diag":
                        pairs = [(pool[i], pool[i]) for i in range(k)]
                    elif shape == "shared_first":
                        pairs = [(pool[0], pool[i]) for i in range(k)]
                    elif shape == "shared_second":
                        pairs = [(pool[i], pool[0]) for i in range(k)]
                    else:
                        pairs = [(pool[i], pool[(i + 1) % k]) for i in range(k)]
                    defs = [{"id": i, "pos": [lit(a), lit(b)], "npos_req": 2, "kw": [], "prio": 0} for i, (a, b) in enumerate(pairs)]
                    if fallback:
                        defs.append({"id": 20, "pos": [[0, cls], [0, cls]], "npos_req": 2, "kw": [], "prio": 0})
                    vals = pool[:k] + [other]
                    calls = [{"vals": [enc_val(a), enc_val(b)], "kwvals": {}} for a in vals for b in vals]
                    out.append({"spec": spec, "defs": defs, "utab": {}, "calls": calls})
    return out


def directed_nested_programs(rng):
    """value-dependent types nested under | and & so that the outer combination's direct members hold no value-dependent
    type, or so that arms of different bounds sit next to each other in either order: the shapes where 'is this annotation
    value-dependent', 'which bound guards which check' and 'which arm admitted the value' can come apart.  Every program
    has the nested method, a method on object to fall through to and sometimes a plain class method; the calls cover
    every arm's bound, inside and outside the condition."""
    vals = [1, 2, 3, 7, "a", "ab", "zz", [1], (1, "a"), None]
    encs = [enc_val(v) for v in vals]
    out = []
    for variant in range(2):
        # P, Q on int; S, T on str; the truth tables also say True on values outside the bound (never to be asked)
        outside = encs if variant == 0 else []
        def tt(inside):
            return [enc_val(v) for v in inside] + [e for e in outside if e not in [enc_val(v) for v in inside] and rng.random() < 0.6]
        utab = {10: tt([1, 3]), 11: tt([3, 7]), 12: tt(["a", "ab"]), 13: tt(["ab", "zz"])}
        P, Q, S, T = [9, 10, [0, INT]], [9, 11, [0, INT]], [9, 12, [0, STR]], [9, 13, [0, STR]]
        L = [8, [0, INT], enc_val(2), enc_val(7)]
        I, St, Li = [0, INT], [0, STR], [0, LIST]
        shapes = [
            [2, [3, P, Q], S], [2, S, [3, P, Q]], [2, [3, Q, P], St], [2, St, [3, P, Q]],
            [2, I, [3, St, S]], [2, [3, St, S], I], [2, [3, S, T], I], [2, Li, [3, S, St]],
            [3, [2, P, S], [2, Q, T]], [3, [2, S, P], I], [2, [3, P, L], S], [2, [2, [3, P, Q], S], Li],
            [2, [3, [2, P, S], [2, Q, St]], Li], [3, [2, I, S], [2, P, St]],
        ]
        for sh in shapes:
            for extra in (None, I, St):
                defs = [{"id": 0, "pos": [sh], "npos_req": 1, "kw": [], "prio": 0},
                        {"id": 9, "pos": [[0, 0]], "npos_req": 1, "kw": [], "prio": 0}]
                if extra is not None:
                    defs.insert(1, {"id": 1, "pos": [extra], "npos_req": 1, "kw": [], "prio": 0})
                out.append({"spec": [], "defs": defs, "utab": {str(k): v for k, v in utab.items()},
                            "calls": [{"vals": [e]} for e in encs]})
        # one user condition given two different bounds in the same function (Dependent[int, p] next to Dependent[str, p]),
        # in either registration order, alone and under a union: the two types are distinct objects with their own bound
        for order in ((INT, STR), (STR, INT)):
            for wrap in (False, True):
                ta, tb = [9, 10, [0, order[0]]], [9, 10, [0, order[1]]]
                if wrap:
                    ta = [2, ta, Li]
                defs = [{"id": 0, "pos": [ta], "npos_req": 1, "kw": [], "prio": 0},
                        {"id": 1, "pos": [tb], "npos_req": 1, "kw": [], "prio": 0},
                        {"id": 9, "pos": [[0, 0]], "npos_req": 1, "kw": [], "prio": 0}]
                out.append({"spec": [], "defs": defs, "utab": {"10": tt([1, 3, "a", "ab"])}, "calls": [{"vals": [e]} for e in encs]})
    return out


def directed_wildcard_programs(rng):
    """one user condition taking three parameters, typing.Any as wildcard, in pairs whose wildcards cross in unequal
    numbers (neither more specific: both holding is an ambiguity), pairs ordered slot by slot, and a method on the bound"""
    one, two = [1, enc_val(1)], [1, enc_val(2)]
    ANY = [0]
    ints = [1, 2, 3, 7]
    out = []
    combos = [([ANY, one, one], [one, ANY, ANY]), ([one, ANY, ANY], [ANY, one, one]), ([ANY, ANY, one], [one, one, ANY]),
              ([one, one, one], [one, ANY, one]), ([ANY, one, two], [one, ANY, ANY]), ([ANY, ANY, ANY], [one, ANY, ANY])]
    for pa, pb in combos:
        for fallback in (True, False):
            utab = {"10": [enc_val(v) for v in ints if rng.random() < 0.7]}
            defs = [{"id": 0, "pos": [[9, 10, [0, INT]] + pa], "npos_req": 1, "kw": [], "prio": 0},
                    {"id": 1, "pos": [[9, 10, [0, INT]] + pb], "npos_req": 1, "kw": [], "prio": 0}]
            if fallback:
                defs.append({"id": 5, "pos": [[0, INT]], "npos_req": 1, "kw": [], "prio": 0})
            out.append({"spec": [], "defs": defs, "utab": utab, "calls": [{"vals": [enc_val(v)]} for v in ints + ["a"]]})
    return out


def slot_args(vals):
    return [[[0, i], v] for i, v in enumerate(vals)]


def impl_kind(out):
    if out[0] == "exc":
        return ["exc"]
    if out[0] == "value":
        return ["exc"]
    return out


def dec_dout(o):
    t = o[0]
    return {0: lambda: ["run", o[1]], 1: lambda: ["nomethod"], 2: lambda: ["ambig"], 3: lambda: ["exc"], 4: lambda: ["exc"], 9: lambda: ["fuel"]}[t]()


def eval_dep_program(prog, hook=True):
    w = world_from(prog["spec"])
    defs = prog["defs"]
    b = progs.Built(w, defs, hook=hook, utab=prog.get("utab"))
    from . import resolve_common as R
    mms = R.model_defs(defs)
    ut = [[int(f)] + vals for f, vals in prog.get("utab", {}).items()]
    queries = []
    pyvals = []
    pykw = []
    for call in prog["calls"]:
        vs = [dec_val(e, w) for e in call["vals"]]
        pyvals.append(vs)
        kwv = {k: dec_val(e, w) for k, e in call.get("kwvals", {}).items()}
        pykw.append({f"k{k}": v for k, v in kwv.items()})
        key = [[[0, cls_of_value(w, v)] for v in vs], [[int(k), [0, cls_of_value(w, v)]] for k, v in kwv.items()]]
        queries.append([0, key, slot_args(call["vals"]) + [[[1, int(k)], e] for k, e in call.get("kwvals", {}).items()]])
    mres = model.run_cases([[20, w.encode(), ut, mms, queries]])[0]
    out = []
    for call, vs, kws, mo in zip(prog["calls"], pyvals, pykw, mres):
        o, entered = b.call(vs, kws)
        received = [dict(e[1]) for e in b.log]
        out.append({"impl": impl_kind(o), "impl_raw": o, "entered": entered, "received": received,
                    "predlog": list(b.predlog), "model": dec_dout(mo)})
    return out, w, b


# ---- the documented rule for value-dependent dispatch, in Python, from docs/dependent.md and the property text ----
def is_dep_enc(t):
    return t[0] in (8, 9, 10, 11)


def bound_enc(t):
    return t[1] if t[0] in (8, 11) else t[2]


def doc_le(w, ta, tb):
    """ta at least as specific as tb (single position), simple types only; None = the documentation does not say"""
    C = w.classes
    if ta == tb:
        return True
    if ta[0] == 0 and tb[0] == 0:
        return issubclass(C[ta[1]], C[tb[1]])
    if is_dep_enc(ta) and tb[0] == 0:
        ba = bound_enc(ta)
        if ba[0] != 0:
            return None
        # more specific than the bound and any of the bound's subclasses (and than the bound's superclasses)
        return issubclass(C[tb[1]], C[ba[1]]) or issubclass(C[ba[1]], C[tb[1]])
    if ta[0] == 0 and is_dep_enc(tb):
        return False
    if is_dep_enc(ta) and is_dep_enc(tb):
        ba, bb = bound_enc(ta), bound_enc(tb)
        if ba[0] != 0 or bb[0] != 0:
            return None
        if ba != bb and issubclass(C[ba[1]], C[bb[1]]):
            return True
        if ta[0] == 9 and tb[0] == 9 and ta[1] == tb[1] and ba == bb and len(ta) == len(tb) and len(ta) > 3:
            # the same parametrised condition: [0] is the typing.Any wildcard.  Where one generalises the other slot by
            # slot the documentation is not relied on (None); where the wildcards cross, neither is more specific
            pa, pb = ta[3:], tb[3:]
            if any(x != y and x != [0] and y != [0] for x, y in zip(pa, pb)):
                return False
            a_gen = any(x == [0] and y != [0] for x, y in zip(pa, pb))
            b_gen = any(y == [0] and x != [0] for x, y in zip(pa, pb))
            return False if (a_gen and b_gen) else None
        return False       # same bound (or unrelated bounds): otherwise unordered
    return None


def py_spec_dep(w, b, defs, vals, kwvals=None):
    """outcome by the documented rule, or None when some annotation is outside the fragment the rule is stated for.
    kwvals: {keyword id: value} -- handled when every method that could apply declares exactly the supplied keywords
    (the rule then compares the keyword slots like further positions); None otherwise"""
    from .c10 import py_isinstance
    kwvals = kwvals or {}
    hold = []
    slots = {}
    for d in defs:
        if len(d["pos"]) != len(vals):
            continue
        dkw = {int(k): (t, req) for (k, t, req) in d.get("kw", [])}
        if set(dkw) != set(kwvals):
            if set(kwvals) <= set(dkw) and not any(req for k, (t, req) in dkw.items() if k not in kwvals):
                return None         # optional keywords left out: outside the fragment handled here
            continue                # a keyword it does not declare, or a required one missing: not applicable
        ts = list(d["pos"]) + [dkw[k][0] for k in sorted(dkw)]
        oks = [py_isinstance(v, b.ty(t)) for v, t in zip(list(vals) + [kwvals[k] for k in sorted(dkw)], ts)]
        if any(o is not True and o is not False for o in oks):
            return None
        if all(oks):
            hold.append(d)
            slots[d["id"]] = ts
    if not hold:
        return ["nomethod"]
    order = {d["id"]: i for i, d in enumerate(defs)}

    def beats(x, y):
        if x["prio"] > y["prio"]:
            return True
        if x["prio"] < y["prio"]:
            return False
        if [model.canon_ty(t) for t in slots[x["id"]]] == [model.canon_ty(t) for t in slots[y["id"]]] and x["npos_req"] == y["npos_req"]:
            return order[x["id"]] > order[y["id"]]          # identical signature: the later registration wins
        les = [doc_le(w, tx, ty) for tx, ty in zip(slots[x["id"]], slots[y["id"]])]
        if any(l is None for l in les):
            return None
        return all(les)

    win = []
    for x in hold:
        bs = [beats(x, y) for y in hold if y is not x]
        if any(v is None for v in bs):
            return None
        if all(bs):
            win.append(x)
    if len(win) == 1:
        return ["run", win[0]["id"]]
    return ["ambig"]


def kf01_shape(w, b, defs, vals, impl, kwvals=None):
    """KF-01's deviation shape for value-dependent programs (see resolve_common.kf01_shape_generic); keyword slots (every
    holder declaring exactly the supplied keywords, as in py_spec_dep) count as further positions"""
    from .c10 import py_isinstance
    from .resolve_common import kf01_shape_generic
    kwvals = kwvals or {}
    hold = []
    for d in defs:
        dkw = {int(k): t for (k, t, req) in d.get("kw", [])}
        if len(d["pos"]) != len(vals) or set(dkw) != set(kwvals):
            continue
        ts = list(d["pos"]) + [dkw[k] for k in sorted(dkw)]
        vs = list(vals) + [kwvals[k] for k in sorted(dkw)]
        if all(py_isinstance(v, b.ty(t)) is True for v, t in zip(vs, ts)):
            hold.append(dict(d, pos=ts))
    return kf01_shape_generic(hold, impl, lambda ta, tb: doc_le(w, ta, tb))
