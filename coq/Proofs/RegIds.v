(* RegIds.v -- registration keeps every definition: after any sequence of registrations the definitions dictionary has
   unique (signature, tiebreak) keys and exactly the registered identifiers (the push-down never loses or duplicates a
   method; the fuel S (length defs) of defs_register always suffices). *)
From Coq Require Import ZArith List Bool Arith Lia Permutation.
Import ListNotations.
From OvldV Require Import Model.Order Model.Ty Model.Resolve Proofs.TyEq Proofs.ResolveChain.

Definition same_key (m x : meth) : bool := sig_eqb x m && Z.eqb (m_tie x) (m_tie m).

Inductive uniq : list meth -> Prop :=
| uniq_nil : uniq []
| uniq_cons x r : (forall y, In y r -> same_key x y = false) -> uniq r -> uniq (x :: r).

Lemma same_key_sym a b : same_key a b = same_key b a.
Proof.
  unfold same_key. destruct (sig_eqb b a) eqn:E1, (sig_eqb a b) eqn:E2; simpl; try apply Z.eqb_sym; try reflexivity.
  - apply sig_eqb_sym in E1. congruence.
  - apply sig_eqb_sym in E2. congruence.
Qed.

Lemma same_key_refl a : same_key a a = true.
Proof. unfold same_key. now rewrite sig_eqb_refl, Z.eqb_refl. Qed.

Lemma same_key_trans_l m x y : same_key m x = true -> same_key m y = true -> same_key x y = true.
Proof.
  unfold same_key. rewrite !andb_true_iff, !Z.eqb_eq. intros [S1 T1] [S2 T2]. split; [|lia].
  eapply sig_eqb_trans; [exact S2|]. now apply sig_eqb_sym.
Qed.

Lemma uniq_app_inv a b : uniq (a ++ b) -> uniq a /\ uniq b /\ (forall x y, In x a -> In y b -> same_key x y = false).
Proof.
  induction a as [|x r IH]; simpl; intros H; [repeat split; [constructor|exact H|intros ? ? []]|].
  inversion H as [|? ? Hx Hr]; subst. destruct (IH Hr) as (Ua & Ub & Hab). repeat split.
  - constructor; [|exact Ua]. intros y Hy. apply Hx. apply in_app_iff. now left.
  - exact Ub.
  - intros x' y [<-|Hx'] Hy; [apply Hx; apply in_app_iff; now right|auto].
Qed.

Lemma uniq_same_eq l x y : uniq l -> In x l -> In y l -> same_key x y = true -> x = y.
Proof.
  induction 1 as [|a r Ha Hr IH]; intros Hx Hy Hs; [destruct Hx|].
  destruct Hx as [<-|Hx], Hy as [<-|Hy]; auto.
  - rewrite (Ha _ Hy) in Hs. discriminate.
  - rewrite same_key_sym in Hs. rewrite (Ha _ Hx) in Hs. discriminate.
Qed.

Lemma uniq_snoc l m : uniq l -> (forall x, In x l -> same_key m x = false) -> uniq (l ++ [m]).
Proof.
  induction 1 as [|a r Ha Hr IH]; intros Hm; simpl; [constructor; [intros ? []|constructor]|].
  constructor.
  - intros y Hy. apply in_app_iff in Hy. destruct Hy as [Hy|[<-|[]]]; [auto|].
    rewrite same_key_sym. apply Hm. now left.
  - apply IH. intros x Hx. apply Hm. now right.
Qed.

(* replacing an element by one of the same key keeps the keys unique *)
Lemma uniq_replace pre old suf m : uniq (pre ++ old :: suf) -> same_key m old = true -> uniq (pre ++ m :: suf).
Proof.
  intros U Hs. destruct (uniq_app_inv _ _ U) as (Up & Uo & Hps). inversion Uo as [|? ? Ho Us]; subst.
  assert (Hk : forall z, same_key m z = same_key old z).
  { intros z. unfold same_key in *. apply andb_true_iff in Hs. destruct Hs as [S T]. apply Z.eqb_eq in T.
    rewrite T. destruct (sig_eqb z m) eqn:E1, (sig_eqb z old) eqn:E2; try reflexivity.
    - rewrite (sig_eqb_trans _ _ _ E1 (sig_eqb_sym _ _ S)) in E2. discriminate.
    - rewrite (sig_eqb_trans _ _ _ E2 S) in E1. discriminate. }
  clear U. induction pre as [|a r IH]; simpl.
  - constructor; [intros y Hy; rewrite Hk; auto|exact Us].
  - inversion Up as [|? ? Ha Ur]; subst. constructor.
    + intros y Hy. apply in_app_iff in Hy. destruct Hy as [Hy|[<-|Hy]].
      * auto.
      * rewrite same_key_sym, Hk, same_key_sym. apply Hps; [now left|now left].
      * apply Hps; [now left|now right].
    + apply IH; [exact Ur|]. intros x y Hx Hy. apply Hps; [now right|exact Hy].
Qed.

Definition below_count (defs : list meth) (m : meth) : nat :=
  length (filter (fun x => sig_eqb x m && Z.leb (m_tie x) (m_tie m)) defs).

Lemma find_none_all {X} (p : X -> bool) l : find p l = None -> forall x, In x l -> p x = false.
Proof. induction l as [|a r IH]; simpl; [intros _ ? []|]. destruct (p a) eqn:E; [discriminate|]. intros H x [<-|Hx]; auto. Qed.

Lemma replace_first_split f m pre x suf :
  (forall y, In y pre -> f y = false) -> f x = true ->
  replace_first f m (pre ++ x :: suf) = pre ++ m :: suf.
Proof.
  induction pre as [|a r IH]; simpl; intros Hpre Hx; [now rewrite Hx|].
  rewrite (Hpre a (or_introl eq_refl)). f_equal. apply IH; auto.
Qed.

(* sharper provenance: the decremented entries sit at or below m's tiebreak *)
Lemma defs_set_src' : forall f defs m y, In y (defs_set f defs m) ->
  y = m \/ In y defs \/ exists x, In x defs /\ sig_eqb x m = true /\ (m_tie x <= m_tie m)%Z /\ y = with_tie x (m_tie x - 1)%Z.
Proof.
  induction f as [|f IH]; intros defs m y Hy; simpl in Hy.
  - destruct (find _ defs); [auto|]. apply in_app_iff in Hy. destruct Hy as [Hy|[<-|[]]]; auto.
  - destruct (find (fun x0 => sig_eqb x0 m && Z.eqb (m_tie x0) (m_tie m)) defs) as [old|] eqn:Ef.
    2:{ apply in_app_iff in Hy. destruct Hy as [Hy|[<-|[]]]; auto. }
    apply find_some in Ef. destruct Ef as [Hold Hs]. apply andb_true_iff in Hs. destruct Hs as [Hso Hto]. apply Z.eqb_eq in Hto.
    apply In_replace_first in Hy. destruct Hy as [->|Hy]; [auto|].
    destruct (IH _ _ _ Hy) as [->|[Hd|(x & Hx & Hsx & Htx & ->)]].
    + right. right. exists old. split; [exact Hold|]. split; [exact Hso|]. split; [lia|reflexivity].
    + auto.
    + right. right. exists x. rewrite sig_eqb_with_tie_r in Hsx. simpl in Htx. split; [exact Hx|].
      split; [eapply sig_eqb_trans; eauto|]. split; [lia|reflexivity].
Qed.

Theorem defs_set_complete : forall f defs m,
  uniq defs -> below_count defs m < f ->
  uniq (defs_set f defs m) /\ Permutation (map m_id (defs_set f defs m)) (m_id m :: map m_id defs).
Proof.
  induction f as [|f IH]; intros defs m U Hc; [lia|].
  simpl. destruct (find (fun x0 => sig_eqb x0 m && Z.eqb (m_tie x0) (m_tie m)) defs) as [old|] eqn:Ef.
  2:{ split.
      - apply uniq_snoc; [exact U|]. intros x Hx. exact (find_none_all _ _ Ef x Hx).
      - rewrite map_app. simpl. apply Permutation_sym. apply Permutation_cons_append. }
  pose proof (find_some _ _ Ef) as [Hold Hs]. fold (same_key m old) in Hs.
  pose proof Hs as Hs'. unfold same_key in Hs'. apply andb_true_iff in Hs'. destruct Hs' as [Hsig Htie]. apply Z.eqb_eq in Htie.
  set (m' := with_tie old (m_tie old - 1)%Z).
  assert (Hc' : below_count defs m' < f).
  { unfold below_count in *.
    assert (Hle : forall l, In old l \/ True ->
       length (filter (fun x => sig_eqb x m' && Z.leb (m_tie x) (m_tie m')) l)
       + (if existsb (fun x => same_key m x) l then 1 else 0)
       <= length (filter (fun x => sig_eqb x m && Z.leb (m_tie x) (m_tie m)) l)).
    { intros l _. induction l as [|a r IHl]; simpl; [lia|].
      destruct (sig_eqb a m) eqn:Esa.
      - assert (Esa' : sig_eqb a m' = true) by (unfold m'; rewrite sig_eqb_with_tie_r; eapply sig_eqb_trans; [exact Esa|now apply sig_eqb_sym]).
        rewrite Esa'. simpl. unfold same_key at 1. rewrite Esa. simpl.
        destruct (Z.eqb (m_tie a) (m_tie m)) eqn:Et.
        + apply Z.eqb_eq in Et. replace (Z.leb (m_tie a) (m_tie m)) with true by (symmetry; apply Z.leb_le; lia).
          replace (Z.leb (m_tie a) (old.(m_tie) - 1)) with false by (symmetry; apply Z.leb_gt; lia).
          simpl. simpl in IHl. destruct (existsb (fun x => same_key m x) r); lia.
        + destruct (Z.leb (m_tie a) (old.(m_tie) - 1)) eqn:El.
          * apply Z.leb_le in El. replace (Z.leb (m_tie a) (m_tie m)) with true by (symmetry; apply Z.leb_le; lia). simpl. simpl in IHl. lia.
          * simpl in IHl. destruct (Z.leb (m_tie a) (m_tie m)); simpl; lia.
      - assert (Esa' : sig_eqb a m' = false).
        { unfold m'. rewrite sig_eqb_with_tie_r. destruct (sig_eqb a old) eqn:E; [|reflexivity].
          rewrite (sig_eqb_trans _ _ _ E Hsig) in Esa. discriminate. }
        rewrite Esa'. simpl. unfold same_key at 1. rewrite Esa. simpl. simpl in IHl. exact IHl. }
    specialize (Hle defs (or_intror I)).
    assert (Hex : existsb (fun x => same_key m x) defs = true) by (apply existsb_exists; exists old; auto).
    rewrite Hex in Hle. lia. }
  destruct (IH defs m' U Hc') as [Ui Hperm].
  set (inner := defs_set f defs m') in *.
  assert (Hin_old : In old inner).
  { apply defs_set_keeps_above; [exact Hold|]. simpl. lia. }
  assert (Honly : forall y, In y inner -> same_key m y = true -> y = old).
  { intros y Hy Hsy. destruct (defs_set_src' _ _ _ _ Hy) as [->|[Hyd|(x & Hx & Hsx & Htx & ->)]].
    - exfalso. unfold same_key in Hsy. apply andb_true_iff in Hsy. destruct Hsy as [_ T]. apply Z.eqb_eq in T. simpl in T. lia.
    - apply (uniq_same_eq defs); auto. apply (same_key_trans_l m); auto.
    - exfalso. unfold same_key in Hsy. apply andb_true_iff in Hsy. destruct Hsy as [_ T]. apply Z.eqb_eq in T.
      simpl in T, Htx. lia. }
  destruct (in_split _ _ Hin_old) as (pre & suf & Hsplit).
  assert (Hpre : forall y, In y pre -> same_key m y = false).
  { intros y Hy. destruct (same_key m y) eqn:E; [|reflexivity]. exfalso.
    assert (y = old) by (apply Honly; [rewrite Hsplit; apply in_app_iff; now left|exact E]). subst y.
    rewrite Hsplit in Ui. destruct (uniq_app_inv _ _ Ui) as (_ & _ & Hd).
    specialize (Hd old old Hy (or_introl eq_refl)). rewrite same_key_refl in Hd. discriminate. }
  change (fun x0 => sig_eqb x0 m && Z.eqb (m_tie x0) (m_tie m)) with (same_key m).
  rewrite Hsplit, (replace_first_split (same_key m) m pre old suf Hpre Hs). split.
  - rewrite Hsplit in Ui. eapply uniq_replace; [exact Ui|exact Hs].
  - rewrite Hsplit in Hperm. rewrite map_app in *. simpl in *.
    (* Hperm: ids pre ++ id old :: ids suf  ~  id m' :: ids defs, and id m' = id old *)
    assert (Hcancel : Permutation (map m_id pre ++ map m_id suf) (map m_id defs)).
    { apply (Permutation_cons_inv (a := m_id old)). etransitivity; [apply Permutation_middle|]. exact Hperm. }
    etransitivity; [apply Permutation_sym, Permutation_middle|]. constructor.
    etransitivity; [|apply Permutation_sym; exact (Permutation_refl _)].
    (* ids pre ++ ids suf ~ ids defs is what we have; but the goal's right side is ids defs *)
    exact Hcancel.
Qed.

Lemma below_count_le defs m : below_count defs m <= length defs.
Proof. unfold below_count. induction defs as [|a r IH]; simpl; [lia|]. destruct (_ && _); simpl; lia. Qed.

Theorem register_complete defs m :
  uniq defs -> uniq (defs_register defs m) /\ Permutation (map m_id (defs_register defs m)) (m_id m :: map m_id defs).
Proof.
  intros U. unfold defs_register. apply (defs_set_complete (S (length defs)) defs (with_tie m 0%Z) U).
  pose proof (below_count_le defs (with_tie m 0%Z)). lia.
Qed.

Theorem registered_complete : forall ds defs,
  uniq defs ->
  uniq (fold_left defs_register ds defs) /\
  Permutation (map m_id (fold_left defs_register ds defs)) (map m_id defs ++ map m_id ds).
Proof.
  induction ds as [|d r IH]; intros defs U; simpl.
  - split; [exact U|]. now rewrite app_nil_r.
  - destruct (register_complete defs d U) as [U1 P1]. destruct (IH _ U1) as [U2 P2]. split; [exact U2|].
    etransitivity; [exact P2|]. etransitivity; [apply Permutation_app_tail; exact P1|].
    simpl. apply Permutation_middle.
Qed.

Corollary registered_ids_nodup ds :
  NoDup (map m_id ds) -> NoDup (map m_id (fold_left defs_register ds [])).
Proof.
  intros H. destruct (registered_complete ds [] uniq_nil) as [_ P]. simpl in P.
  eapply Permutation_NoDup; [apply Permutation_sym; exact P|exact H].
Qed.

(* the registered definitions are the given ones up to their tiebreaks *)
Lemma defs_set_shape : forall f defs m y, In y (defs_set f defs m) ->
  exists x t, (x = m \/ In x defs) /\ y = with_tie x t.
Proof.
  intros f defs m y Hy. destruct (defs_set_src _ _ _ _ Hy) as [->|[Hd|(x & Hx & _ & ->)]].
  - exists m, (m_tie m). split; [now left|]. destruct m; reflexivity.
  - exists y, (m_tie y). split; [now right|]. destruct y; reflexivity.
  - exists x, (m_tie x - 1)%Z. split; [now right|reflexivity].
Qed.

Lemma registered_shape : forall ds defs y, In y (fold_left defs_register ds defs) ->
  exists x t, (In x defs \/ In x ds) /\ y = with_tie x t.
Proof.
  induction ds as [|d r IH]; intros defs y Hy; simpl in Hy.
  - exists y, (m_tie y). split; [now left|]. destruct y; reflexivity.
  - destruct (IH _ _ Hy) as (x & t & [Hx|Hx] & ->).
    + unfold defs_register in Hx. destruct (defs_set_shape _ _ _ _ Hx) as (x0 & t0 & [->|Hx0] & ->).
      * exists d, t. split; [right; now left|reflexivity].
      * exists x0, t. split; [now left|reflexivity].
    + exists x, t. split; [right; now right|reflexivity].
Qed.

From OvldV Require Import Spec.Dispatch.

Lemma registered_static ds : static_ms ds = true -> static_ms (fold_left defs_register ds []) = true.
Proof.
  unfold static_ms. rewrite !forallb_forall. intros H y Hy.
  destruct (registered_shape _ _ _ Hy) as (x & t & [[]|Hx] & ->). simpl. exact (H x Hx).
Qed.

Section Registered.
  Variable sub : nat -> nat -> bool.
  Variable hasm : nat -> nat -> bool.
  Variable chk : nat -> nat -> bool.
  Variable sub_fresh : nat -> bool.
  Hypothesis sub_refl : forall c, sub c c = true.
  Hypothesis sub_antisym : forall c d, sub c d = true -> sub d c = true -> c = d.
  Hypothesis sub_trans : forall a b c, sub a b = true -> sub b c = true -> sub a c = true.

  (* for ANY sequence of definitions with distinct identifiers registered in order (re-registrations of a signature
     included), on chain-applicable calls the implementation's outcome is the documented verdict *)
  Theorem exact_registered ds k :
    NoDup (map m_id ds) -> static_ms ds = true -> static_key k = true ->
    chain_applicable sub (fold_left defs_register ds []) k = true ->
    verdict_of (lookup sub hasm chk sub_fresh (fold_left defs_register ds []) k)
    = Some (spec_outcome sub (fold_left defs_register ds []) k).
  Proof.
    intros Hnd Hst Hk Hch.
    apply (chain_exact_unconditional sub hasm chk sub_fresh sub_refl sub_antisym sub_trans); auto.
    - now apply registered_ids_nodup.
    - now apply registered_static.
    - now apply registered_ties_wf.
  Qed.
End Registered.
