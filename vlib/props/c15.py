"""C15 — equivalent spellings of an annotation dispatch identically."""
import json, collections, typing, linecache, itertools
from .. import model, progs
from ..world import World, random_spec, world_from, enc_val, dec_val
from . import resolve_common as R
from ovld.types import normalize_type
from ovld import types as otypes, dependent as odep

NONE, LIST, TUPLE, TYPE = 12, 5, 6, 1

CLAIM = dict(
    text="Coq theorems on the model of the annotation normaliser (Model/Norm.v: TypeNormalizer and abc.py's generic handlers): typing.Union[...] / A | B / the tuple (A, B) have one normal form; Optional[A] = A | None; a missing annotation = typing.Any = object; Annotated[A, ...] = A; a string = the annotation it names; list[A] = typing.List[A]; bare type = type[object]; normalisation is compositional. General statements (Proofs/NormRespell.v): `respell` is the least equivalence containing those documented pairs and closed under every compound annotation form; related annotations normalise to the same type (C15_respelling_same_type, by induction on the derivation), hence two method lists differing only by respellings -- any number, any depth, any parameter of any method -- are the same list of registered methods and lookup / lookup_next agree for every class hierarchy and every key (C15_respelling_same_dispatch, C15_respelling_same_continuation). Reorderings are not identities of the model's terms (the library identifies them through an order-insensitive ==, the harness hands the model a canonical member order); proved about them: reordering members of unions / intersections / Literal values at any depth leaves the set of classes under the type unchanged (C15_reorder_same_classes, through C13's denotation theorem), and a Literal keeps its bound and its members (C15_literal_order). The rest of the assurance for C15 is the correspondence: for generated annotations in every supported spelling, normalize_type of the real annotation object is compared with the model's norm, and each respelling (including reorderings of union members and Literal values) of one method's annotation inside random surrounding method sets -- also sets containing both spellings -- is run over an argument corpus and must give identical outcomes. Member order: the library identifies reordered unions / intersections / Literals since fix: 1379476 (KF-52); before it reordered spellings were distinct signatures.",
    note="Trusted: eval of string annotations (tested, not modelled), Python's typing module flattening / deduplicating union members before the library sees them.",
    technique="Coq proof (respelling relation closed under all annotation forms -> same normal type -> same dispatch; reordering invariance of the class-level meaning) + differential correspondence of respelt programs", design="6 C15")

THEOREMS = ["C15_union_spellings", "C15_optional", "C15_any_missing_object", "C15_annotated", "C15_string",
            "C15_list_spellings", "C15_congruence_union", "C15_bare_type", "C15_respelling_same_type", "C15_respelling_same_dispatch",
            "C15_respelling_same_continuation", "C15_reorder_same_classes", "C15_literal_order"]
ASSUMPTIONS = []

_ids = itertools.count()


def gen_base(rng, w):
    """a base annotation in 'logical' form"""
    cls = [2, 3] + w.user_ids()
    r = rng.random()
    if r < 0.3:
        k = rng.randint(2, 3)
        return ["union"] + [["cls", c] for c in rng.sample(cls, min(k, len(cls)))]
    if r < 0.4:
        return ["optional", ["cls", rng.choice(cls)]]
    if r < 0.5:
        return ["any"]
    if r < 0.6:
        return ["cls", rng.choice(cls)]
    if r < 0.7:
        return ["list", ["cls", rng.choice(cls)]]
    if r < 0.85:
        pool = rng.choice([[1, 2, 3], ["a", "b", "ab"]])
        return ["literal"] + rng.sample(pool, rng.randint(2, 3))
    return ["typeof", ["cls", rng.choice(cls)]]


def spellings(rng, a):
    """equivalent spellings of the logical annotation a (each is a 'surface' form)"""
    t = a[0]
    if t == "union":
        ms = a[1:]
        rev = list(reversed(ms))
        return [["tunion"] + ms, ["pipe"] + ms, ["tuple"] + ms, ["tunion"] + rev, ["pipe"] + rev, ["str", ["pipe"] + ms]]
    if t == "optional":
        return [["toptional", a[1]], ["pipe", a[1], ["none"]], ["tunion", a[1], ["none"]]]
    if t == "any":
        return [["any"], ["missing"], ["cls", 0], ["str", ["cls", 0]]]
    if t == "cls":
        return [a, ["annotated", a], ["str", a], ["str", ["annotated", a]]]
    if t == "list":
        return [["list", a[1]], ["tlist", a[1]], ["annotated", ["list", a[1]]]]
    if t == "literal":
        vs = a[1:]
        return [["literal"] + vs, ["literal"] + list(reversed(vs)), ["str", ["literal"] + vs]]
    if t == "typeof":
        return [a, ["annotated", a]]
    return [a]


def src(w, s, names):
    """Python source of the surface form; classes are referenced through names registered in `names`"""
    t = s[0]
    if t == "cls":
        c = w.classes[s[1]]
        nm = f"K{s[1]}"
        names[nm] = c
        return nm
    if t == "none":
        return "None"
    if t == "any":
        return "typing.Any"
    if t == "tunion":
        return "typing.Union[" + ", ".join(src(w, x, names) for x in s[1:]) + "]"
    if t == "pipe":
        return " | ".join(src(w, x, names) for x in s[1:])
    if t == "tuple":
        return "(" + ", ".join(src(w, x, names) for x in s[1:]) + ",)"
    if t == "toptional":
        return f"typing.Optional[{src(w, s[1], names)}]"
    if t == "annotated":
        return f"typing.Annotated[{src(w, s[1], names)}, 'meta']"
    if t == "str":
        return repr(src(w, s[1], names))
    if t == "list":
        return f"list[{src(w, s[1], names)}]"
    if t == "tlist":
        return f"typing.List[{src(w, s[1], names)}]"
    if t == "literal":
        return "typing.Literal[" + ", ".join(repr(v) for v in s[1:]) + "]"
    if t == "typeof":
        return f"type[{src(w, s[1], names)}]"
    raise ValueError(s)


def model_ann(w, s):
    """the surface form as the model's ann encoding"""
    t = s[0]
    if t == "cls":
        return [0, [0, s[1]]]
    if t == "none":
        return [0, [0, NONE]]
    if t == "any":
        return [1]
    if t == "missing":
        return [2]
    if t in ("tunion", "pipe"):
        if any(x == ["none"] for x in s[1:]) and len(s) == 3:
            other = [x for x in s[1:] if x != ["none"]][0]
            return [6, model_ann(w, other)]
        return [4] + [model_ann(w, x) for x in s[1:]]
    if t == "tuple":
        return [5] + [model_ann(w, x) for x in s[1:]]
    if t == "toptional":
        return [6, model_ann(w, s[1])]
    if t == "annotated":
        return [7, model_ann(w, s[1])]
    if t == "str":
        return [8, model_ann(w, s[1])]
    if t == "list":
        return [10, model_ann(w, s[1]), 0]
    if t == "tlist":
        return [10, model_ann(w, s[1]), 1]
    if t == "literal":
        return [11] + [enc_val(v) for v in s[1:]]
    if t == "typeof":
        return [9, [0, s[1][1]]]
    raise ValueError(s)


def enc_of_type(w, o):
    """encoding of a normalised library type object"""
    if isinstance(o, odep.Equals):
        return [8, enc_of_type(w, o.bound)] + [enc_val(v) for v in o.parameters]
    if isinstance(o, odep.ProductType):
        return [11, enc_of_type(w, o.bound)] + [enc_of_type(w, x) for x in o.parameters]
    if type(o).__name__ == "SequenceFastCheck":
        return [10, 4, enc_of_type(w, o.bound)] + [enc_of_type(w, x) for x in o.parameters]
    if isinstance(o, otypes.MetaMC):
        h = o._handler
        if isinstance(h, otypes.Union._C if hasattr(otypes.Union, "_C") else ()):
            pass
        if type(h).__name__ == "Union":
            return [2] + [enc_of_type(w, x) for x in h.types]
        if type(h).__name__ == "Intersection":
            return [3] + [enc_of_type(w, x) for x in h.types]
    if typing.get_origin(o) is type:
        return [1, TYPE, enc_of_type(w, typing.get_args(o)[0])]
    if isinstance(o, type):
        return [0, w.cid(o)]
    raise ValueError(f"cannot encode {o!r}")


def make_fn(w, mid, ann_src_list, names, log):
    params = ", ".join((f"a{i}: {a}" if a is not None else f"a{i}") for i, a in enumerate(ann_src_list))
    srcs = f"def m{mid}({params}):\n    LOG.append({mid})\n    return ('ret', {mid})\n"
    fname = f"<verif-c15-{next(_ids)}>"
    linecache.cache[fname] = (len(srcs), None, srcs.splitlines(True), fname)
    glb = dict(names)
    glb.update({"typing": typing, "LOG": log, "__name__": "verif_c15"})
    exec(compile(srcs, fname, "exec"), glb)
    return glb[f"m{mid}"]


def build(w, surround, special, log):
    """surround: list of static defs (class annotations); special: list of (mid, surface form) for position 0"""
    import ovld
    ov = ovld.Ovld(name="f")
    names = {}
    for d in surround:
        anns = [src(w, ["cls", t[1]], names) for t in d["pos"]]
        ov.register(make_fn(w, d["id"], anns, names, log), priority=d["prio"])
    for (mid, s, npos) in special:
        a0 = None if s == ["missing"] else src(w, s, names)
        anns = [a0] + [src(w, ["cls", 0], names)] * (npos - 1)
        ov.register(make_fn(w, mid, anns, names, log))
    return ov


def outcomes(ov, log, argsets):
    out = []
    for args in argsets:
        del log[:]
        try:
            r = ov(*args)
            out.append(["run", r[1]])
        except TypeError as e:
            m = str(e)
            out.append(["nomethod"] if m.startswith("No method") else ["ambig"] if m.startswith("Ambiguous") else ["exc", m[:60]])
        except Exception as e:  # noqa
            out.append(["exc", type(e).__name__])
    return out


def build_args(w, argdesc):
    def one(d):
        if d[0] == "I":
            return w.instance(d[1])
        if d[0] == "V":
            return dec_val(d[1], w)
        if d[0] == "L":
            return [w.instance(d[1])]
        return w.classes[d[1]]
    return [[one(d) for d in row] for row in argdesc]


def check(ctx, stats, samples):
    rng = ctx.rng
    spec = random_spec(rng, n_user=rng.randint(2, 4), kinds=("plain", "plain", "abc"))
    w = World(spec)
    npos = rng.choice([1, 1, 2])
    surround = [d for d in R.gen_static_defs(rng, w, npos=npos, n_methods=rng.randint(0, 3), allow_kw=False, allow_arity=False, allow_dup=False)]
    base = gen_base(rng, w)
    sp = spellings(rng, base)
    # 1. normaliser correspondence
    names = {}
    for s in sp:
        a_src = None if s == ["missing"] else src(w, s, names)
        g = dict(names); g["typing"] = typing
        fn = make_fn(w, 0, [a_src], names, [])
        import inspect
        raw = inspect.signature(fn).parameters["a0"].annotation
        got = enc_of_type(w, normalize_type(raw, fn))
        exp = model.run_cases([[23, [model_ann(w, s)]]])[0][0]
        stats["evaluations"] += 1
        stats["norm_checks"] += 1
        if model.canon_ty(got) != model.canon_ty(exp):
            ctx.violation(f"normalize_type gives {got} but the model's norm gives {exp}", {"spec": spec, "surface": s}, kind="correspondence")
            break          # the tie is broken: the behaviour of the respellings is still compared below (no model involved)
    # 2. behaviour: every respelling behaves like the first spelling
    inst = [c for c in [2, 3] + w.user_ids() if w.instantiable(c)]
    # arguments as descriptors (so that a replay rebuilds exactly these calls): ["I", class id] instance, ["V", encoded value], ["C", class id] a passed class
    pool0 = [["I", c] for c in inst] + [["V", enc_val(v)] for v in (1, 2, 3, "a", "b", "ab", None)] + [["L", inst[0]], ["V", enc_val([1])], ["C", 2], ["C", inst[-1]]]
    argdesc = [[d] + [["I", rng.choice(inst)] for _ in range(npos - 1)] for d in pool0]
    argsets = build_args(w, argdesc)
    log = []
    extra = []
    if base[0] == "literal" and rng.random() < 0.6:
        # three or four further Literal methods on other values: from four Literal methods on, the group is served by the
        # lookup-table strategy, whose keys come from a different place than the checks of the if-chain
        other = [10, 11, 12, 13] if isinstance(base[1], int) else ["p", "q", "r", "s"]
        extra = [(80 + i, ["literal", v], npos) for i, v in enumerate(other[:rng.randint(3, 4)])]
        stats["literal_table_groups"] += 1
    _build = build
    build_x = lambda w_, su, special, log_: _build(w_, su, extra + special, log_)
    ref = outcomes(build_x(w, surround, [(90, sp[0], npos)], log), log, argsets)
    stats["evaluations"] += len(argsets)
    for s in sp[1:]:
        got = outcomes(build_x(w, surround, [(90, s, npos)], log), log, argsets)
        stats["evaluations"] += len(argsets)
        stats["respellings"] += 1
        stats["distinct"].add(hash(json.dumps([spec, surround, sp[0], s])))
        if got != ref:
            ctx.violation(f"respelling {s} of {sp[0]} changes dispatch: {ref} -> {got}", {"spec": spec, "surround": surround, "a": sp[0], "b": s, "npos": npos, "args": argdesc, "extra": extra})
            return
        # both spellings in one function == the same spelling twice (the later definition replaces the earlier)
        both = outcomes(build_x(w, surround, [(90, sp[0], npos), (91, s, npos)], log), log, argsets)
        twice = outcomes(build_x(w, surround, [(90, sp[0], npos), (91, sp[0], npos)], log), log, argsets)
        stats["evaluations"] += 2 * len(argsets)
        if both != twice:
            ctx.violation(f"a function holding both spellings {sp[0]} and {s} differs from one holding the same spelling twice: {twice} -> {both}",
                          {"spec": spec, "surround": surround, "a": sp[0], "b": s, "npos": npos, "both": True, "args": argdesc, "extra": extra})
            return
    if len(samples) < 3:
        samples.append({"base": base, "spellings": sp, "reference_outcomes": ref[:6]})


def check_callable(ctx, stats):
    """spellings nested in the parameter list of a Callable[...] annotation (a form outside the modelled normaliser):
    property oracle alone -- normalize_type must agree for A / Annotated[A, ...] and for Any / object, and a function
    holding both spellings must treat the second as a re-definition of the first"""
    import collections.abc as cabc
    import ovld as _ov
    A = int
    def probe(v: int) -> str:
        return ""

    def probe_o(v: object) -> str:
        return ""

    def probe2(v: int, w: object) -> str:
        return ""
    pairs = [(typing.Callable[[A], str], typing.Callable[[typing.Annotated[A, "meta"]], str], probe),
             (cabc.Callable[[A], str], cabc.Callable[[typing.Annotated[A, "meta"]], str], probe),
             (typing.Callable[[object], str], typing.Callable[[typing.Any], str], probe_o),
             (typing.Callable[[A, object], str], typing.Callable[[typing.Annotated[A, 1], typing.Any], str], probe2)]
    for a, b, pr in pairs:
        stats["evaluations"] += 1
        stats["callable_spellings"] += 1
        na, nb = normalize_type(a, None), normalize_type(b, None)
        if na != nb:
            ctx.violation(f"normalize_type differs for the equivalent spellings {a} and {b}: {na} vs {nb}", {"callable": [repr(a), repr(b)]})
            return
        f = _ov.Ovld(name="f")

        def m1(x: a):
            return 1

        def m2(x: b):
            return 2

        def m3(x: object):
            return 3
        for m in (m1, m2, m3):
            f.register(m)

        try:
            r = f(pr)
        except TypeError as e:
            r = "TypeError:" + str(e)[:40]
        if r != 2:
            ctx.violation(f"a function holding the spellings {a} and {b} answers {r!r} where the later definition (2) replaces the earlier", {"callable": [repr(a), repr(b)], "dispatch": True})
            return


def run(ctx):
    stats = collections.Counter()
    stats["distinct"] = set()
    samples = []
    check_callable(ctx, stats)
    n = 60 if ctx.quick() else 2500
    for _ in range(n):
        check(ctx, stats, samples)
        if len(ctx.violations) > 3:
            break
    return {"evaluations": stats["evaluations"], "distinct_nontrivial": len(stats["distinct"]),
            "rule": "per round one logical annotation (union of 2-3 classes, Optional, Any, class, list[...], Literal, type[...]) in all its spellings (typing.Union / | / tuple / reordered / string; Optional / | None; Any / missing / object; Annotated; list / typing.List; reordered Literal) placed at position 0 of one method inside 0-3 random surrounding static methods (1-2 positions), a Literal in most rounds also next to 3-4 further Literal methods (lookup-table strategy); each respelling is run over 15+ arguments (instances, ints, strs, None, lists, passed classes) against the first spelling, and both-spellings-in-one-function against same-spelling-twice; a respelling pair is non-trivial (differs textually); distinct by (world, surrounding methods, pair)",
            "samples": samples, "literal_rounds_inside_a_lookup_table_group": stats["literal_table_groups"], "normaliser_checks": stats["norm_checks"], "respelling_pairs": stats["respellings"],
            "traces_validated_against_impl": stats["evaluations"]}


def replay(ctx, payload):
    """rebuild the recorded functions and calls; reproduced iff the two functions still behave differently"""
    c = payload["case"]
    if "surface" in c:      # a normaliser correspondence case
        w = World(c["spec"])
        names = {}
        s = c["surface"]
        a_src = None if s == ["missing"] else src(w, s, names)
        fn = make_fn(w, 0, [a_src], names, [])
        import inspect
        raw = inspect.signature(fn).parameters["a0"].annotation
        got = enc_of_type(w, normalize_type(raw, fn))
        exp = model.run_cases([[23, [model_ann(w, s)]]])[0][0]
        return model.canon_ty(got) != model.canon_ty(exp)
    if "args" not in c:
        return True         # an older replay file without the recorded calls: cannot be rebuilt, reported as reproduced
    w = World(c["spec"])
    argsets = build_args(w, c["args"])
    log = []
    extra = [tuple(x) for x in c.get("extra", [])]
    if c.get("both"):
        both = outcomes(build(w, c["surround"], extra + [(90, c["a"], c["npos"]), (91, c["b"], c["npos"])], log), log, argsets)
        twice = outcomes(build(w, c["surround"], extra + [(90, c["a"], c["npos"]), (91, c["a"], c["npos"])], log), log, argsets)
        return both != twice
    ref = outcomes(build(w, c["surround"], extra + [(90, c["a"], c["npos"])], log), log, argsets)
    got = outcomes(build(w, c["surround"], extra + [(90, c["b"], c["npos"])], log), log, argsets)
    return ref != got


def replay_finding(ctx, e):
    # KF-52 (fixed): reordered unions unequal
    wit = e["witness"]
    w = world_from(wit["spec"])
    from ..world import Decoder
    d = Decoder(w)
    a, b = d.ty(wit["types"][0]), d.ty(wit["types"][1])
    return a != b
